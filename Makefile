# Builds every harness from the *working tree* of $(REPO) (default /repo).  Nothing links
# against /repo/_build.  Object files live under build/<repo-path>/ so that a scratch copy
# of the repository (mutant runs) never shares objects with /repo.
REPO ?= /repo
VERIF := $(dir $(abspath $(lastword $(MAKEFILE_LIST))))
B := $(VERIF)build/$(shell echo $(abspath $(REPO)) | sed 's/[^A-Za-z0-9]/_/g')
CXX := g++
CC := gcc
GUARD := -DPHOTOSPLINE_VERIF
INC := -I$(REPO)/include -I/usr/include/suitesparse -I$(VERIF)
DEFS := -DPHOTOSPLINE_INCLUDES_SPGLAM $(GUARD)
SAN := -fsanitize=address,undefined -fno-sanitize=vla-bound -fno-sanitize-recover=undefined -fno-omit-frame-pointer
ASAN_CXX := -std=c++11 -O1 -g $(SAN) -UNDEBUG -fno-access-control -Wno-deprecated-declarations -Wno-register
ASAN_C := -std=gnu99 -O1 -g $(SAN) -UNDEBUG
OPT_CXX := -std=c++11 -O3 -msse2 -msse3 -msse4 -msse4.1 -msse4.2 -mno-avx -fno-access-control -Wno-register
LIBS := -lcfitsio -lspqr -lcholmod -lm -lpthread

CORE := bspline bspline_multi convolve fitsio
FITTER := cholesky_solve glam nnls splineutil

ASAN_LIBOBJS := $(addprefix $(B)/asan/core_,$(addsuffix .o,$(CORE))) \
                $(addprefix $(B)/asan/fitter_,$(addsuffix .o,$(FITTER))) $(B)/asan/cinter.o
OPT_LIBOBJS := $(addprefix $(B)/opt/core_,$(addsuffix .o,$(CORE))) \
               $(addprefix $(B)/opt/fitter_,$(addsuffix .o,$(FITTER))) $(B)/opt/cinter.o

ENGINE_OBJS := $(B)/asan/vfs_driver.o
$(B)/asan/vfs_driver.o: $(VERIF)engine/vfs_driver.c $(VERIF)engine/vfs_driver.h
	@mkdir -p $(dir $@)
	$(CC) -std=gnu99 -O1 -g $(SAN) -I/usr/include -c $< -o $@

.PHONY: setup all clean
HARNESSES := $(sort $(patsubst $(VERIF)checks/%.cpp,%,$(filter-out %tsan.cpp,$(wildcard $(VERIF)checks/C*.cpp))))
setup: $(addprefix harness-,$(HARNESSES))
	@echo setup done: $(HARNESSES)
all: setup

$(B)/asan/core_%.o: $(REPO)/src/core/%.cpp
	@mkdir -p $(dir $@)
	$(CXX) $(ASAN_CXX) $(INC) $(DEFS) -MMD -c $< -o $@
$(B)/asan/fitter_%.o: $(REPO)/src/fitter/%.c
	@mkdir -p $(dir $@)
	$(CC) $(ASAN_C) $(INC) $(DEFS) -MMD -c $< -o $@
$(B)/asan/cinter.o: $(REPO)/src/cinter/splinetable.cpp
	@mkdir -p $(dir $@)
	$(CXX) $(ASAN_CXX) $(INC) $(DEFS) -MMD -c $< -o $@

$(B)/opt/core_%.o: $(REPO)/src/core/%.cpp
	@mkdir -p $(dir $@)
	$(CXX) $(OPT_CXX) $(INC) $(DEFS) -MMD -c $< -o $@
$(B)/opt/fitter_%.o: $(REPO)/src/fitter/%.c
	@mkdir -p $(dir $@)
	$(CC) -std=gnu99 -O2 $(INC) $(DEFS) -MMD -c $< -o $@
$(B)/opt/cinter.o: $(REPO)/src/cinter/splinetable.cpp
	@mkdir -p $(dir $@)
	$(CXX) $(OPT_CXX) $(INC) $(DEFS) -MMD -c $< -o $@

# generic ASan harness: checks/<ID>.cpp  -> build/.../bin/<ID>
$(B)/asan/h_%.o: $(VERIF)checks/%.cpp $(wildcard $(VERIF)engine/*.hpp) $(wildcard $(VERIF)ref/*.hpp)
	@mkdir -p $(dir $@)
	$(CXX) $(ASAN_CXX) $(INC) $(DEFS) -MMD -c $< -o $@
$(B)/bin/%: $(B)/asan/h_%.o $(ASAN_LIBOBJS) $(ENGINE_OBJS)
	@mkdir -p $(dir $@)
	$(CXX) $(SAN) -o $@ $^ $(LIBS)

$(B)/asan/newdelete.o: $(VERIF)engine/newdelete.cpp
	@mkdir -p $(dir $@)
	$(CXX) -std=c++11 -O1 -g $(SAN) -c $< -o $@
# harnesses whose oracle needs a throwing operator new (absurd allocation sizes must raise bad_alloc)
$(B)/bin/C07: $(B)/asan/h_C07.o $(ASAN_LIBOBJS) $(ENGINE_OBJS) $(B)/asan/newdelete.o
	@mkdir -p $(dir $@)
	$(CXX) $(SAN) -o $@ $^ $(LIBS)

# ---- C12: the real cholesky_solve.c with its pthread calls renamed to the scheduler (ASan), and a TSan build with real pthreads
$(B)/sched/cholesky_solve.o: $(REPO)/src/fitter/cholesky_solve.c $(VERIF)engine/sched/shim.h
	@mkdir -p $(dir $@)
	$(CC) $(ASAN_C) $(INC) $(DEFS) -include $(VERIF)engine/sched/shim.h -MMD -c $< -o $@
$(B)/sched/ms_sched.o: $(VERIF)engine/sched/ms_sched.c $(VERIF)engine/sched/ms_sched.h
	@mkdir -p $(dir $@)
	$(CC) -std=gnu99 -O1 -g $(SAN) -c $< -o $@
$(B)/sched/h_C12.o: $(VERIF)checks/C12.cpp $(wildcard $(VERIF)engine/*.hpp) $(VERIF)engine/sched/ms_sched.h
	@mkdir -p $(dir $@)
	$(CXX) $(ASAN_CXX) $(INC) -I$(REPO)/src/fitter $(DEFS) -MMD -c $< -o $@
$(B)/bin/C12: $(B)/sched/h_C12.o $(B)/sched/cholesky_solve.o $(B)/sched/ms_sched.o
	@mkdir -p $(dir $@)
	$(CXX) $(SAN) -o $@ $^ -lcholmod -lm -lpthread
TSAN := -fsanitize=thread -O1 -g -fno-omit-frame-pointer
$(B)/tsan/fitter_%.o: $(REPO)/src/fitter/%.c
	@mkdir -p $(dir $@)
	$(CC) -std=gnu99 $(TSAN) $(INC) $(DEFS) -MMD -c $< -o $@
$(B)/tsan/core_%.o: $(REPO)/src/core/%.cpp
	@mkdir -p $(dir $@)
	$(CXX) -std=c++11 $(TSAN) -Wno-register $(INC) $(DEFS) -MMD -c $< -o $@
$(B)/tsan/h_C12tsan.o: $(VERIF)checks/C12tsan.cpp $(wildcard $(VERIF)engine/*.hpp)
	@mkdir -p $(dir $@)
	$(CXX) -std=c++11 $(TSAN) -fno-access-control -Wno-register $(INC) -I$(REPO)/src/fitter $(DEFS) -MMD -c $< -o $@
$(B)/bin/C12tsan: $(B)/tsan/h_C12tsan.o $(addprefix $(B)/tsan/fitter_,$(addsuffix .o,$(FITTER))) $(addprefix $(B)/tsan/core_,$(addsuffix .o,$(CORE)))
	@mkdir -p $(dir $@)
	$(CXX) -fsanitize=thread -o $@ $^ $(LIBS)
$(B)/bin/C11 $(B)/bin/C10: $(B)/bin/%: $(B)/asan/h_%.o $(ASAN_LIBOBJS) $(ENGINE_OBJS)
	@mkdir -p $(dir $@)
	$(CXX) $(SAN) -Wl,--wrap=walk_descents -o $@ $^ $(LIBS)
# memory-access variant: cholesky_solve.c compiled with -fsanitize=thread but linked against engine/sched/ms_mem.c (not the TSan runtime)
$(B)/schedmem/cholesky_solve.o: $(REPO)/src/fitter/cholesky_solve.c $(VERIF)engine/sched/shim.h
	@mkdir -p $(dir $@)
	$(CC) -std=gnu99 -O1 -g -fsanitize=thread -fno-omit-frame-pointer $(INC) $(DEFS) -DMS_MEM -include $(VERIF)engine/sched/shim.h -MMD -c $< -o $@
$(B)/schedmem/ms_mem.o: $(VERIF)engine/sched/ms_mem.c $(VERIF)engine/sched/ms_sched.h
	@mkdir -p $(dir $@)
	$(CC) -std=gnu99 -O1 -g $(INC) -I$(VERIF)engine/sched -c $< -o $@
$(B)/schedmem/h_C12.o: $(VERIF)checks/C12.cpp $(wildcard $(VERIF)engine/*.hpp) $(VERIF)engine/sched/ms_sched.h
	@mkdir -p $(dir $@)
	$(CXX) -std=c++11 -O1 -g -fno-omit-frame-pointer -UNDEBUG -fno-access-control -Wno-deprecated-declarations -Wno-register $(INC) -I$(REPO)/src/fitter $(DEFS) -DC12_MEM -MMD -c $< -o $@
$(B)/schedmem/ms_sched.o: $(VERIF)engine/sched/ms_sched.c $(VERIF)engine/sched/ms_sched.h
	@mkdir -p $(dir $@)
	$(CC) -std=gnu99 -O1 -g -c $< -o $@
# no AddressSanitizer in this variant: a fork of an ASan process costs ~10x more, and memory safety under every schedule is the job of bin/C12
$(B)/bin/C12mem: $(B)/schedmem/h_C12.o $(B)/schedmem/cholesky_solve.o $(B)/schedmem/ms_sched.o $(B)/schedmem/ms_mem.o
	@mkdir -p $(dir $@)
	$(CXX) -o $@ $^ -lcholmod -lm -lpthread
harness-C12: $(B)/bin/C12 $(B)/bin/C12tsan $(B)/bin/C12mem
	@true

harness-%: $(B)/bin/%
	@true

.SECONDARY:
clean:
	rm -rf $(VERIF)build

-include $(wildcard $(B)/*/*.d)

# ---- C03: the same harness source in four build variants (library PUBLIC flags / ASan) x (with / without
# PHOTOSPLINE_NO_EVAL_TEMPLATES).  bin/C03 is the primary (opt, templates).
$(B)/opt/h_C03.o: $(VERIF)checks/C03.cpp $(wildcard $(VERIF)engine/*.hpp)
	@mkdir -p $(dir $@)
	$(CXX) $(OPT_CXX) $(INC) $(DEFS) -DC03_VARIANT='"opt+templates"' -MMD -c $< -o $@
$(B)/opt/h_C03nt.o: $(VERIF)checks/C03.cpp $(wildcard $(VERIF)engine/*.hpp)
	@mkdir -p $(dir $@)
	$(CXX) $(OPT_CXX) $(INC) $(DEFS) -DPHOTOSPLINE_NO_EVAL_TEMPLATES -DC03_VARIANT='"opt+no-templates"' -MMD -c $< -o $@
$(B)/optnt/cinter.o: $(REPO)/src/cinter/splinetable.cpp
	@mkdir -p $(dir $@)
	$(CXX) $(OPT_CXX) $(INC) $(DEFS) -DPHOTOSPLINE_NO_EVAL_TEMPLATES -MMD -c $< -o $@
$(B)/asan/h_C03nt.o: $(VERIF)checks/C03.cpp $(wildcard $(VERIF)engine/*.hpp)
	@mkdir -p $(dir $@)
	$(CXX) $(ASAN_CXX) $(INC) $(DEFS) -DPHOTOSPLINE_NO_EVAL_TEMPLATES -DC03_VARIANT='"asan+no-templates"' -MMD -c $< -o $@
$(B)/asan/h_C03asan.o: $(VERIF)checks/C03.cpp $(wildcard $(VERIF)engine/*.hpp)
	@mkdir -p $(dir $@)
	$(CXX) $(ASAN_CXX) $(INC) $(DEFS) -DC03_VARIANT='"asan+templates"' -MMD -c $< -o $@
$(B)/bin/C03: $(B)/opt/h_C03.o $(OPT_LIBOBJS)
	@mkdir -p $(dir $@)
	$(CXX) -o $@ $^ $(LIBS)
$(B)/bin/C03nt: $(B)/opt/h_C03nt.o $(filter-out %/cinter.o,$(OPT_LIBOBJS)) $(B)/optnt/cinter.o
	@mkdir -p $(dir $@)
	$(CXX) -o $@ $^ $(LIBS)
$(B)/bin/C03asan: $(B)/asan/h_C03asan.o $(ASAN_LIBOBJS)
	@mkdir -p $(dir $@)
	$(CXX) $(SAN) -o $@ $^ $(LIBS)
$(B)/bin/C03asannt: $(B)/asan/h_C03nt.o $(ASAN_LIBOBJS)
	@mkdir -p $(dir $@)
	$(CXX) $(SAN) -o $@ $^ $(LIBS)
harness-C03: $(B)/bin/C03 $(B)/bin/C03nt $(B)/bin/C03asan $(B)/bin/C03asannt
	@true
