// C09 — the unconstrained fit minimises the penalised weighted least-squares objective.
#include "engine/vf.hpp"
#include "engine/tablegen.hpp"
#include "ref/fit_ref.hpp"
#include <photospline/splinetable.h>
typedef photospline::splinetable<> Table;
static vf::Harness* H;
using la::ld;

static std::vector<double> abscissae(int kind, const std::vector<double>& k, uint32_t order, size_t n) {
  double a = k[order], b = k[k.size() - order - 1]; std::vector<double> x;
  for (size_t i = 0; i < n; i++) {
    double u = (i + 0.5) / n;
    if (kind == 1) u = (i + 0.5 + 0.35 * ((i * 7) % 3 - 1)) / n;          // irregular
    if (kind == 2) u = u * u * (3 - 2 * u) * 0.9 + 0.05 * (i % 2);        // clustered towards the ends
    u = std::min(std::max(u, 1e-3), 1 - 1e-3);
    x.push_back(a + (b - a) * u);
  }
  std::sort(x.begin(), x.end());
  return x;
}

// run the library and compare with the reference; returns the fitted coefficients (empty on failure)
static std::vector<float> fit_and_check(const fitref::Problem& P, int single_args /* 0: both per dimension, 1: both given once, 2: smoothing per dimension + one penalty order, 3: one smoothing + penalty order per dimension */, const std::string& key, const std::string& where, bool assert_equal = true) {
  size_t nd = P.ndim();
  photospline::ndsparse data(P.y.size(), nd);
  for (size_t r = 0; r < P.y.size(); r++) { std::vector<unsigned> ix(P.idx[r]); data.insertEntry(P.y[r], ix.data()); }
  for (size_t d = 0; d < nd; d++) data.ranges[d] = P.coords[d].size();
  std::vector<double> sm = P.smooth; std::vector<uint32_t> po = P.porder;
  if (single_args == 1 || single_args == 3) sm.resize(1);
  if (single_args == 1 || single_args == 2) po.resize(1);
  Table t;
  try { t.fit(data, P.w, P.coords, P.order, P.knots, sm, po, Table::no_monodim, false); }
  catch (std::exception& e) { H->violation("fit-threw:" + key, where + " " + e.what()); return {}; }
  H->count("evaluations");
  std::vector<float> c(t.get_coefficients(), t.get_coefficients() + t.get_ncoeffs());
  for (size_t d = 0; d < nd; d++) if (t.get_order(d) != P.order[d] || t.get_nknots(d) != P.knots[d].size() || t.get_ncoeffs(d) != P.naxes(d)) H->violation("fit-result-shape:" + key, where);
  if (!assert_equal) return c;
  fitref::Solution S = fitref::solve(P);
  if (!S.spd || !(S.kappa <= 1e8L)) { H->count("ill_posed_run_for_safety_only"); return c; }
  H->count("asserted_fits");
  ld cmax = 0; for (auto v : S.c) cmax = std::max(cmax, fabsl(v));
  ld tol = (8 * 1.2e-7L + 200 * S.kappa * 2.3e-16L) * std::max(cmax, (ld)1e-30);
  ld worst = 0; size_t wi = 0; for (size_t i = 0; i < c.size(); i++) { ld e = fabsl((ld)c[i] - S.c[i]); if (e > worst || !(e == e)) { worst = e; wi = i; } }
  if (!(worst <= tol)) H->violation("not-the-minimiser:" + key, where + vf::fmt(" coefficient %zu: fit %.9g reference %.9g (err %.3g tol %.3g kappa %.3g)", wi, (double)c[wi], (double)S.c[wi], (double)worst, (double)tol, (double)S.kappa));
  // the implementation's coefficients must also (nearly) satisfy the reference normal equations
  ld rmax = 0, nscale = 0; for (size_t i = 0; i < c.size(); i++) { ld s = -S.rhs[i], a = fabsl(S.rhs[i]); for (size_t j = 0; j < c.size(); j++) { s += S.N(i, j) * (ld)c[j]; a += fabsl(S.N(i, j) * (ld)c[j]); } rmax = std::max(rmax, fabsl(s)); nscale = std::max(nscale, a); }
  if (!(rmax <= (16 * 1.2e-7L * c.size() + 1e-9L) * std::max(nscale, (ld)1e-30))) H->violation("normal-equations-residual:" + key, where + vf::fmt(" residual %.3g scale %.3g", (double)rmax, (double)nscale));
  return c;
}

static fitref::Problem grid_problem(const std::vector<uint32_t>& order, const std::vector<int>& knotpat, const std::vector<size_t>& nbasis, int abs_kind, size_t pts_per_basis, bool sparse) {
  fitref::Problem P; size_t nd = order.size(); P.order = order;
  for (size_t d = 0; d < nd; d++) { P.knots.push_back(tg::make_knots(knotpat[d], order[d], nbasis[d] + order[d] + 1, 0.5 * d)); P.coords.push_back(abscissae(abs_kind, P.knots[d], order[d], nbasis[d] * pts_per_basis + 1)); }
  std::vector<unsigned> ix(nd, 0);
  while (true) {
    unsigned s = 0; for (auto v : ix) s += v;
    if (!(sparse && s % 3 == 0)) P.idx.push_back(ix);
    size_t d = nd; while (d-- > 0) { if (++ix[d] < P.coords[d].size()) break; ix[d] = 0; if (d == 0) return P; }
  }
}
static ld spline_value(const fitref::Problem& P, const std::vector<float>& c, const std::vector<unsigned>& ix) {
  std::vector<ref::DimView> v; std::vector<double> x;
  for (size_t d = 0; d < P.ndim(); d++) { v.push_back({P.knots[d].data(), P.knots[d].size(), P.order[d]}); x.push_back(P.coords[d][ix[d]]); }
  return ref::full_eval(v, c.data(), x.data(), nullptr).value;
}

static void run_d1(uint64_t idx) {
  // (order, porder) pairs with porder <= order: 15
  static std::vector<std::pair<int, int>> OP; if (OP.empty()) for (int o = 0; o <= 4; o++) for (int p = 0; p <= o; p++) OP.push_back({o, p});
  static const vf::Radix R{15, 2, 2, 3, 4, 3, 5, 2};
  auto v = R.decode(idx);
  uint32_t order = OP[v[0]].first, porder = OP[v[0]].second; int kp = v[1] ? tg::K_IRREGULAR : tg::K_UNIFORM; size_t nb = order + (v[2] ? 6 : 3); int ak = v[3], dk = v[4], wk = v[5]; static const double LAM[] = {0, 1e-3, 1, 1e3, 1e6}; double lam = LAM[v[6]]; bool sparse = v[7];
  fitref::Problem P = grid_problem({order}, {kp}, {nb}, ak, 3, sparse);
  P.smooth = {lam}; P.porder = {porder};
  size_t rows = P.idx.size();
  std::vector<float> ctrue = tg::make_coeffs(1, nb, H->seed, idx);
  for (size_t r = 0; r < rows; r++) {
    double x = P.coords[0][P.idx[r][0]], y;
    switch (dk) {
      case 0: y = (double)spline_value(P, ctrue, P.idx[r]); break;
      case 1: { int deg = porder ? (int)((idx / 7) % porder) : 0; y = porder ? pow(x - 1.0, deg) * (1 + deg) : 2.5; break; }   // polynomial of degree < penalty order (a constant if porder == 0... then not reproduced, plain data)
      case 2: y = sin(x) + 3 * (vf::u01(H->seed, idx * 131 + r) - 0.5); break;
      default: y = x > P.coords[0][P.coords[0].size() / 2] ? 2.0 : -1.0;
    }
    P.y.push_back(y);
    P.w.push_back(wk == 0 ? 1.0 : (wk == 1 ? 0.1 + 3 * vf::u01(H->seed + 1, idx * 17 + r) : ((r % 4 == 1) ? 0.0 : 1.0 + (r % 3))));
  }
  std::string key = vf::fmt("d=1:data=%s", dk == 0 ? "spline" : dk == 1 ? "polynomial" : dk == 2 ? "noisy" : "step");
  std::string where = vf::fmt("[d=1 order=%u porder=%u knots=%s nbasis=%zu abscissae=%d data=%d weights=%d lambda=%g sparse=%d]", order, porder, tg::pattern_name(kp), nb, ak, dk, wk, lam, (int)sparse);
  H->hint(where);
  std::vector<float> c = fit_and_check(P, 1, key, where);
  if (c.empty()) return;
  fitref::Solution S = fitref::solve(P);
  bool posed = S.spd && S.kappa <= 1e8L;
  H->cls(vf::fmt("d=1|o=%u|p=%u|%s|data=%d|w=%d|lam=%g|sparse=%d|%s", order, porder, tg::pattern_name(kp), dk, wk, lam, (int)sparse, posed ? "well-posed" : "ill-posed"));
  if (!posed) return;
  // sub-oracles
  ld cmax = 0; for (auto x : S.c) cmax = std::max(cmax, fabsl(x)); ld tol = (8 * 1.2e-7L + 200 * S.kappa * 2.3e-16L) * std::max(cmax, (ld)1);
  if (dk == 0 && lam == 0) { H->count("projection_checks"); for (size_t i = 0; i < c.size(); i++) if (fabsl((ld)c[i] - ctrue[i]) > 4 * tol) { H->violation("spline-data-not-reproduced:d=1", where + vf::fmt(" coefficient %zu: %.9g vs %.9g", i, (double)c[i], (double)ctrue[i])); break; } }
  if (dk == 1 && porder > 0) {  // polynomial of degree < porder is reproduced for every lambda: compare the fitted curve with the data
    H->count("polynomial_checks");
    ld ymax = 1; for (auto y : P.y) ymax = std::max(ymax, fabsl((ld)y));
    for (size_t r = 0; r < rows; r++) { ld f = spline_value(P, c, P.idx[r]); if (fabsl(f - P.y[r]) > 64 * (1.2e-7L + S.kappa * 2.3e-16L) * ymax * (order + 2)) { H->violation("polynomial-below-penalty-order-not-reproduced:d=1", where + vf::fmt(" x=%.6g data %.9g fit %.9g", P.coords[0][P.idx[r][0]], P.y[r], (double)f)); break; } }
  }
  if (H->want_sample()) H->sample("{\"case\":\"" + where + "\",\"kappa\":" + vf::dstr((double)S.kappa) + "}");
}

static void run_dn(uint64_t idx) {
  static const uint32_t O2[6][2] = {{0, 0}, {1, 2}, {2, 2}, {2, 3}, {3, 1}, {4, 2}};
  static const vf::Radix R{6, 4, 3, 2, 3, 2};
  auto v = R.decode(idx);
  std::vector<uint32_t> order{O2[v[0]][0], O2[v[0]][1]}; int single = v[1]; int listing = v[2]; bool sparse = v[3]; static const double LAM[] = {0, 1e-2, 10}; double lam = LAM[v[4]]; int dk = v[5];
  fitref::Problem P = grid_problem(order, {tg::K_UNIFORM, tg::K_IRREGULAR}, {order[0] + 3, order[1] + 4}, 1, 2, sparse);
  uint32_t p0 = std::min<uint32_t>(order[0], 2), p1 = std::min<uint32_t>(order[1], 1);
  // the two arguments may each be given once or per dimension, independently of each other
  double lam1 = lam * 3 + (lam == 0 ? 0.5 : 0); uint32_t pmin = std::min(p0, p1);
  if (single == 1) { P.smooth = {lam, lam}; P.porder = {pmin, pmin}; }
  else if (single == 0) { P.smooth = {lam, lam1}; P.porder = {p0, p1}; }
  else if (single == 2) { P.smooth = {lam, lam1}; P.porder = {pmin, pmin}; }
  else { P.smooth = {lam, lam}; P.porder = {p0, p1}; }
  std::vector<float> ctrue = tg::make_coeffs(1, P.ncoef(), H->seed, idx);
  // three listing orders of the same sparse data
  if (listing == 1) std::reverse(P.idx.begin(), P.idx.end());
  if (listing == 2) { std::vector<std::vector<unsigned>> a, b; for (size_t i = 0; i < P.idx.size(); i++) (i % 2 ? a : b).push_back(P.idx[i]); a.insert(a.end(), b.begin(), b.end()); P.idx = a; }
  for (size_t r = 0; r < P.idx.size(); r++) { P.y.push_back(dk == 0 ? (double)spline_value(P, ctrue, P.idx[r]) : cos(0.7 * P.idx[r][0]) * (1 + 0.2 * P.idx[r][1]) + vf::u01(H->seed, idx * 977 + P.idx[r][0] * 31 + P.idx[r][1])); P.w.push_back(1.0 + ((P.idx[r][0] + 2 * P.idx[r][1]) % 3)); }
  std::string where = vf::fmt("[d=2 orders=%u,%u %s-args listing=%d sparse=%d lambda=%g data=%d]", order[0], order[1], (single == 1 ? "single" : single == 0 ? "per-dimension" : single == 2 ? "smoothing-per-dimension+one-penalty-order" : "one-smoothing+penalty-order-per-dimension"), listing, (int)sparse, lam, dk);
  H->hint(where);
  std::vector<float> c = fit_and_check(P, single, "d=2", where);
  H->cls(vf::fmt("d=2|%u,%u|single=%d|listing=%d|sparse=%d|lam=%g|data=%d", order[0], order[1], single, listing, (int)sparse, lam, dk));
}

static void run_hi(uint64_t idx) {
  static const vf::Radix R{2, 3, 2, 3};
  auto v = R.decode(idx);
  int d = 3 + v[0]; int op = v[1]; bool sparse = v[2]; static const double LAM[] = {0, 1e-2, 10}; double lam = LAM[v[3]];
  std::vector<uint32_t> order(d); std::vector<int> kp(d); std::vector<size_t> nb(d);
  for (int i = 0; i < d; i++) { order[i] = op == 0 ? 1 : (op == 1 ? (uint32_t)(i % 3) : 2); kp[i] = i % 2 ? tg::K_IRREGULAR : tg::K_UNIFORM; nb[i] = order[i] + 2 + (i % 2); }
  fitref::Problem P = grid_problem(order, kp, nb, 0, 1, sparse);
  for (int i = 0; i < d; i++) { P.smooth.push_back(lam * (1 + i)); P.porder.push_back(std::min<uint32_t>(order[i], 1 + i % 2)); }
  if (lam == 0 && sparse) for (auto& s : P.smooth) s = 1e-3;   // keep the sparse problem well posed
  std::vector<float> ctrue = tg::make_coeffs(1, P.ncoef(), H->seed, idx);
  for (size_t r = 0; r < P.idx.size(); r++) { P.y.push_back((double)spline_value(P, ctrue, P.idx[r]) + 0.25 * vf::u01(H->seed, idx * 7 + r)); P.w.push_back(0.5 + (r % 4)); }
  std::string where = vf::fmt("[d=%d orders=%s sparse=%d lambda=%g rows=%zu ncoef=%llu]", d, vf::vecstr(order).c_str(), (int)sparse, lam, P.idx.size(), (unsigned long long)P.ncoef());
  H->hint(where);
  fit_and_check(P, 0, vf::fmt("d=%d", d), where);
  H->cls(where);
}

// influence of zero-weight entries and of the listing order: two fits must agree
static void run_invariance(uint64_t idx) {
  uint32_t order = 1 + idx % 3; double lam = (idx / 3) % 2 ? 0.1 : 0.0; int d = 1 + (idx / 6) % 2;
  std::vector<uint32_t> o(d, order); std::vector<int> kp(d, tg::K_IRREGULAR); std::vector<size_t> nb(d, order + 4);
  fitref::Problem P = grid_problem(o, kp, nb, 1, 2, false);
  for (int i = 0; i < d; i++) { P.smooth.push_back(lam); P.porder.push_back(1); }
  for (size_t r = 0; r < P.idx.size(); r++) { P.y.push_back(sin(0.3 * r) + 0.1 * (r % 5)); P.w.push_back(1.0 + (r % 3)); }
  std::string where = vf::fmt("[invariance d=%d order=%u lambda=%g]", d, order, lam);
  H->hint(where);
  std::vector<float> base = fit_and_check(P, 1, "invariance", where, false);
  fitref::Problem Q = P;   // same data plus zero-weight garbage rows, listed in reverse
  for (size_t r = 0; r < P.idx.size(); r += 3) { Q.idx.push_back(P.idx[r]); Q.y.push_back(1e6 * (r + 1)); Q.w.push_back(0.0); }
  std::vector<size_t> perm(Q.idx.size()); for (size_t i = 0; i < perm.size(); i++) perm[i] = perm.size() - 1 - i;
  fitref::Problem Q2 = Q; for (size_t i = 0; i < perm.size(); i++) { Q2.idx[i] = Q.idx[perm[i]]; Q2.y[i] = Q.y[perm[i]]; Q2.w[i] = Q.w[perm[i]]; }
  std::vector<float> other = fit_and_check(Q2, 1, "invariance", where, false);
  if (base.empty() || other.size() != base.size()) return;
  fitref::Solution S = fitref::solve(P); if (!S.spd || S.kappa > 1e8L) return;
  ld cmax = 1; for (auto v : S.c) cmax = std::max(cmax, fabsl(v)); ld tol = 2 * (8 * 1.2e-7L + 200 * S.kappa * 2.3e-16L) * cmax;
  H->count("invariance_checks");
  for (size_t i = 0; i < base.size(); i++) if (fabsl((ld)base[i] - other[i]) > tol) { H->violation("zero-weight-or-listing-order-influences-fit", where + vf::fmt(" coefficient %zu: %.9g vs %.9g", i, (double)base[i], (double)other[i])); break; }
  // the minimiser does not change when all weights and smoothing strengths are multiplied by one positive factor (weights are
  // 1/sigma^2 in whatever units the user measures in): the same problem at four other overall scales
  for (double scale : {1e-18, 1e-9, 1e9, 1e15}) {
    fitref::Problem R = P; for (auto& w : R.w) w *= scale; for (auto& l : R.smooth) l *= scale;
    std::vector<float> sc = fit_and_check(R, 1, "invariance", where + vf::fmt(" weights-and-smoothing x %g", scale), false);
    if (sc.size() != base.size()) { H->violation("fit-fails-when-weights-are-rescaled", where + vf::fmt(" scale %g", scale)); continue; }
    H->count("invariance_checks");
    for (size_t i = 0; i < base.size(); i++) if (!(fabsl((ld)base[i] - sc[i]) <= tol)) { H->violation("overall-weight-scale-influences-fit", where + vf::fmt(" scale %g coefficient %zu: %.9g vs %.9g", scale, i, (double)base[i], (double)sc[i])); break; }
  }
  H->cls(where);
}

int main(int argc, char** argv) {
  vf::Harness h("C09", argc, argv);
  H = &h;
  h.meta("level", "exploration");
  h.meta("rule", "complete walk: d=1: 15 (order<=4, penalty order<=order) pairs x {uniform, irregular} knots x {order+3, order+6} basis functions x 3 abscissa patterns x {spline on the same knots, polynomial below the penalty order, noisy, step} data x {unit, seeded, some-zero} weights x lambda in {0,1e-3,1,1e3,1e6} x {dense, every third cell missing}; d=2: 6 order pairs x {single, per-dimension} smoothing/penalty arguments x 3 listing orders x {dense, sparse} x 3 lambdas x 2 data kinds; d=3,4: 3 order patterns (<=2) x {dense, sparse} x 3 lambdas on 3..5 basis functions per axis; invariance space: zero-weight garbage rows + reversed listing; oracle = dense Kronecker normal equations with the derivative-coefficient penalty (de Boor X.16) solved by long-double Cholesky, asserted for condition <= 1e8 with tolerance (8 eps_f + 200 kappa eps_d)|c|, plus the residual of the reference normal equations; distinct = case descriptor incl. well-posedness");
  h.meta("assumption", "reference: ref/fit_ref.hpp; problems with estimated condition above 1e8 are executed for memory safety only");
  h.meta("require_asserted_fits", "2000");
  h.meta("require_projection_checks", "50");
  h.meta("require_polynomial_checks", "50");
  h.meta("deadline_quick", "900"); h.meta("deadline_thorough", "2400");
  h.timeout_s = 120;
  h.add_space("d1", 15ull * 2 * 2 * 3 * 4 * 3 * 5 * 2, run_d1);
  h.add_space("d2", 6 * 4 * 3 * 2 * 3 * 2, run_dn);
  h.add_space("d34", 2 * 3 * 2 * 3, run_hi);
  h.add_space("invariance", 12, run_invariance);
  return h.main();
}
