// C12 (supporting pass) — the same harness bodies and real monotonic fits, free-running with real pthreads under
// ThreadSanitizer.  The scheduler build cannot see unsynchronised accesses (its hand-offs are happens-before
// edges); this pass can, and it also checks that the fitted coefficients do not depend on the worker count.
#include "engine/vf.hpp"
#include <photospline/splinetable.h>
#include "cholesky_solve.h"
static vf::Harness* H;
static const double ALPHAS[] = {0.9, 0.8, 0.3, 0.2, 0.1, 0.05, 0.02, 0.01, 0.005};

static void run_walk(uint64_t idx) {
  static const int WS[] = {1, 2, 3, 5, 8, 16, 32};
  int W = WS[idx % 7]; int nalpha = 2 + (idx / 7) % 8; int variant = (idx / 56) % 3;
  H->hint(vf::fmt("walk:W=%d:n_alpha=%d:variant=%d", W, nalpha, variant));
  setenv("OMP_NUM_THREADS", std::to_string(W).c_str(), 1); unsetenv("GOTO_NUM_THREADS");
  std::vector<unsigned char> first;
  for (int rep = 0; rep < (H->thorough ? 60 : 12); rep++) {
    cholmod_common c; cholmod_l_start(&c);
    int k = nalpha - 2; long nF = k + 1;
    cholmod_sparse* A = cholmod_l_speye(nF, nF, CHOLMOD_REAL, &c); A->stype = 0;
    cholmod_dense *b = cholmod_l_zeros(nF, 1, CHOLMOD_REAL, &c), *x = cholmod_l_zeros(nF, 1, CHOLMOD_REAL, &c), *xF = cholmod_l_zeros(nF, 1, CHOLMOD_REAL, &c);
    double *xp = (double*)x->x, *xFp = (double*)xF->x, *bp = (double*)b->x; std::vector<long> F, H1(nF + 4, -1);
    for (long i = 0; i < nF; i++) { F.push_back(i); xp[i] = 1.0; xFp[i] = (i < k) ? 1.0 - 1.0 / ALPHAS[i] : 2.0; }
    double a = variant == 0 ? 1.0 : (variant == 1 ? (k >= 3 ? ALPHAS[2] : (k >= 1 ? ALPHAS[k - 1] : 1.0)) : 0.0);
    for (long i = 0; i < nF; i++) { double z = (1 - a) * xp[i] + a * xFp[i]; bp[i] = z < 0 ? 0 : z; }
    long nH1 = 0, nFv = nF; double residual = 1e300; int calcs = 0;
    int feasible = walk_descents(A, b, x, xF, F.data(), &nFv, H1.data(), &nH1, &residual, &calcs, 0, &c);
    std::vector<unsigned char> out; auto put = [&](const void* p, size_t n) { out.insert(out.end(), (const unsigned char*)p, (const unsigned char*)p + n); };
    put(&feasible, sizeof feasible); put(&nH1, sizeof nH1); put(H1.data(), sizeof(long) * nH1); put(x->x, 8 * nF); put(&residual, 8);
    if (rep == 0) first = out; else if (out != first) H->violation("free-running:result-differs-between-runs", vf::fmt("W=%d n_alpha=%d variant=%d", W, nalpha, variant));
    cholmod_l_free_sparse(&A, &c); cholmod_l_free_dense(&b, &c); cholmod_l_free_dense(&x, &c); cholmod_l_free_dense(&xF, &c); cholmod_l_finish(&c);
    H->count("evaluations");
  }
  H->cls(vf::fmt("walk|W=%d|n_alpha=%d|v=%d", W, nalpha, variant));
}

// real monotonic fits that reach the line search, under varying worker counts
static std::vector<float> fit_once(int dataset, int W) {
  setenv("OMP_NUM_THREADS", std::to_string(W).c_str(), 1); unsetenv("GOTO_NUM_THREADS");
  uint32_t order = 1 + dataset % 2; size_t nk = 2 * order + 2 + 5;
  std::vector<double> knots; for (size_t i = 0; i < nk; i++) knots.push_back((double)i - order);
  size_t npts = 14; std::vector<double> xs; for (size_t i = 0; i < npts; i++) xs.push_back(0.05 + i * (nk - 2.0 * order - 1.1) / npts);
  photospline::ndsparse data(npts, 1); std::vector<double> w(npts, 1.0);
  for (unsigned i = 0; i < npts; i++) { double y = 0.3 * i + 4.0 * (vf::u01(97 + dataset, i) - 0.5) + ((i * 7 + dataset) % 5 == 0 ? -3.0 : 0.0); data.insertEntry(y, &i); }
  photospline::splinetable<> t;
  std::vector<std::vector<double>> coords{xs}, kn{knots}; std::vector<uint32_t> ord{order}, po{1}; std::vector<double> sm{1e-3};
  t.fit(data, w, coords, ord, kn, sm, po, 0, false);
  return std::vector<float>(t.get_coefficients(), t.get_coefficients() + t.get_ncoeffs());
}
static void run_fit(uint64_t idx) {
  static const int WS[] = {1, 2, 3, 5, 8, 16, 32};
  int dataset = idx;
  H->hint(vf::fmt("fit:dataset=%d", dataset));
  std::vector<float> ref = fit_once(dataset, 1);
  for (size_t j = 1; j < ref.size(); j++) if (ref[j] < ref[j - 1]) H->violation("free-running:monotonic-fit-not-monotone", vf::fmt("dataset %d", dataset));
  for (int W : WS) for (int rep = 0; rep < 3; rep++) {
    std::vector<float> c = fit_once(dataset, W);
    H->count("evaluations");
    bool same = c.size() == ref.size(); double maxrel = 0;
    for (size_t j = 0; same && j < c.size(); j++) { double d = fabs((double)c[j] - ref[j]), s = std::max(fabs((double)ref[j]), 1e-3); maxrel = std::max(maxrel, d / s); }
    if (!same || maxrel > 4 * 1.2e-7) H->violation("free-running:fit-depends-on-worker-count", vf::fmt("dataset %d W=%d max relative difference %.3g", dataset, W, maxrel));
  }
  H->cls(vf::fmt("fit|%d", dataset));
}

int main(int argc, char** argv) {
  vf::Harness h("C12", argc, argv);
  H = &h;
  h.timeout_s = 40;
  h.add_space("tsan-walk", 7 * 8 * 3, run_walk);
  h.add_space("tsan-fit", h.thorough ? 40 : 12, run_fit);
  return h.main();
}
