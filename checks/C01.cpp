// C01 — evaluation equals the tensor-product B-spline sum (bounded-exhaustive input enumeration).
#include "engine/vf.hpp"
#include "engine/tablegen.hpp"
#include "ref/bspline_ref.hpp"
#include <photospline/cinter/splinetable.h>
#include "engine/evalspace.hpp"
using namespace es;

static vf::Harness* H;

static double tol_for(const ref::EvalResult& r, size_t nd, uint32_t maxorder, bool isfloat) {
  double eps = isfloat ? ldexp(1.0, -23) : ldexp(1.0, -52);
  double K = 4.0 * ((double)r.nterms + nd * (2.0 * maxorder + 4.0));
  // underflow floor: a basis value or partial product below the smallest normal number of the
  // working precision loses up to that much absolute accuracy before it is scaled by |c|
  double tiny = (isfloat ? 1.2e-38 : 2.3e-308) * (double)(nd + 2) * (1.0 + (double)r.cabs);
  return K * eps * (double)r.mag + tiny;
}

// evaluate one point through every C01 entry point and compare with the reference
static void check_point(Built& b, const std::vector<double>& x, const std::string& tabkey, const std::string& ptcls, bool allones, bool with_c) {
  size_t nd = b.spec.dims.size();
  std::vector<int> c1(nd, -77), c2(nd, -77);
  bool ok1 = b.nanpad->searchcenters(x.data(), c1.data());
  bool ok2 = b.hugepad->searchcenters(x.data(), c2.data());
  if (ok1 != ok2 || (ok1 && c1 != c2)) { H->violation("padding-dependent-lookup", tabkey + " x=" + vf::vecstr(x)); return; }
  if (!ok1) { H->count("lookup_rejected"); return; }
  auto views = b.spec.views();
  ref::EvalResult r = ref::full_eval(views, b.spec.coeffs.data(), x.data(), nullptr);
  H->count("evaluations");
  bool fully = true;
  for (size_t d = 0; d < nd; d++) {
    auto& D = b.spec.dims[d];
    if (!(x[d] >= D.knots[D.order] && x[d] <= D.knots[D.naxes()])) fully = false;
  }
  struct E { const char* name; double v; double v2; bool isfloat; };
  std::vector<E> es;
  es.push_back({"member<float>", b.nanpad->ndsplineeval<float>(x.data(), c1.data(), 0), b.hugepad->ndsplineeval<float>(x.data(), c1.data(), 0), true});
  es.push_back({"member<double>", b.nanpad->ndsplineeval<double>(x.data(), c1.data(), 0), b.hugepad->ndsplineeval<double>(x.data(), c1.data(), 0), false});
  es.push_back({"operator()", (*b.nanpad)(x.data()), (*b.hugepad)(x.data()), true});
  if (with_c) {
    struct splinetable st; st.data = b.nanpad.get();
    struct splinetable st2; st2.data = b.hugepad.get();
    std::vector<int> cc(nd);
    int okc = tablesearchcenters(&st, x.data(), cc.data());
    if (!okc || cc != c1) H->violation("c-wrapper-lookup-differs", tabkey + " x=" + vf::vecstr(x));
    es.push_back({"C:ndsplineeval", ndsplineeval(&st, x.data(), c1.data(), 0), ndsplineeval(&st2, x.data(), c1.data(), 0), true});
  }
  for (auto& e : es) {
    double tol = tol_for(r, nd, b.maxorder, e.isfloat);
    if (memcmp(&e.v, &e.v2, sizeof(double)) != 0 && !(e.v == e.v2))
      H->violation("padding-dependent-value:" + coarse(tabkey, ptcls),
                   vf::fmt("%s x=%s nanpad=%.17g hugepad=%.17g", e.name, vf::vecstr(x).c_str(), e.v, e.v2));
    double err = fabs(e.v - (double)r.value);
    if (!(err <= tol)) {
      H->violation("value-mismatch:" + coarse(tabkey, ptcls),
                   vf::fmt("[%s pt=%s] %s x=%s centers=%s impl=%.17g ref=%.17g err=%.3g tol=%.3g mag=%.3g table=%s", tabkey.c_str(), ptcls.c_str(), e.name, vf::vecstr(x).c_str(),
                           vf::vecstr(c1).c_str(), e.v, (double)r.value, err, tol, (double)r.mag, b.spec.describe().c_str()));
    }
    if (allones && fully) {
      H->count("ones_in_full_support");
      if (!(fabs(e.v - 1.0) <= tol + 4 * ldexp(1.0, e.isfloat ? -23 : -52)))
        H->violation("partition-of-unity:" + coarse(tabkey, ptcls), vf::fmt("[%s pt=%s] %s x=%s value=%.17g", tabkey.c_str(), ptcls.c_str(), e.name, vf::vecstr(x).c_str(), e.v));
    }
  }
  H->cls(tabkey + "|" + ptcls);
  if (H->want_sample())
    H->sample("{\"table\":" + b.spec.describe() + ",\"x\":" + vf::vecstr(x) + ",\"ref\":" + vf::dstr((double)r.value) + ",\"impl_float\":" + vf::dstr(es[0].v) + "}");
}

// ---------------------------------------------------------------- d = 1
static void run_d1(uint64_t idx) {
  static const vf::Radix R{6, tg::K_NPATTERNS, 3, 4};
  auto v = R.decode(idx);
  uint32_t order = v[0]; int pat = v[1], cnt = v[2], ck = v[3];
  uint64_t nk = count_for(order, cnt);
  tg::TableSpec s;
  s.dims.push_back({order, tg::make_knots(pat, order, nk)});
  std::string tabkey = vf::fmt("d=1:order=%u:knots=%s:count=%s", order, tg::pattern_name(pat), count_name(cnt));
  H->hint(tabkey);
  auto pts = tg::point_classes(s.dims[0].knots, order);
  uint64_t na = s.dims[0].naxes();
  int nvariants = (ck == 3) ? (int)na : 1;
  for (int var = 0; var < nvariants; var++) {
    if (ck == 3) { s.coeffs.assign(na, 0.f); s.coeffs[var] = 1.f; }
    else s.coeffs = tg::make_coeffs(ck, na, H->seed, idx);
    auto b = make(s);
    for (auto& p : pts) check_point(*b, {p.x}, tabkey, p.cls, ck == 0, true);
  }
}

// ---------------------------------------------------------------- d = 2
static void run_d2(uint64_t idx, bool thorough) {
  int npat = thorough ? tg::K_NPATTERNS : 3;
  vf::Radix R{6, 6, (uint64_t)npat, 2, 2, 2};
  auto v = R.decode(idx);
  uint32_t o[2] = {(uint32_t)v[0], (uint32_t)v[1]};
  int pat = v[2]; int cnt[2] = {(int)v[3], (int)v[4]}; int ck = v[5] ? 2 : 0;
  tg::TableSpec s;
  s.dims.push_back({o[0], tg::make_knots(pat, o[0], count_for(o[0], cnt[0]))});
  s.dims.push_back({o[1], tg::make_knots((pat + 1) % npat, o[1], count_for(o[1], cnt[1]), -2.5)});
  s.coeffs = tg::make_coeffs(ck, s.ncoeffs(), H->seed, idx);
  std::string tabkey = vf::fmt("d=2:orders=%u,%u:knots=%s:count=%s,%s", o[0], o[1], tg::pattern_name(pat), count_name(cnt[0]), count_name(cnt[1]));
  H->hint(tabkey);
  auto b = make(s);
  auto p0 = tg::point_classes(s.dims[0].knots, o[0], true), p1 = tg::point_classes(s.dims[1].knots, o[1], true);
  for (auto& a : p0) for (auto& c : p1) check_point(*b, {a.x, c.x}, tabkey, std::string(a.cls) + "," + c.cls, ck == 0, true);
}

// ---------------------------------------------------------------- d = 3
static void run_d3(uint64_t idx) {
  static const vf::Radix R{6, 6, 6, 2, 2};
  auto v = R.decode(idx);
  tg::TableSpec s;
  int cnt = v[3]; int ck = v[4] ? 2 : 0;
  static const int pats[3] = {tg::K_UNIFORM, tg::K_IRREGULAR, tg::K_UNIFORM};
  for (int d = 0; d < 3; d++) s.dims.push_back({(uint32_t)v[d], tg::make_knots(pats[d], v[d], count_for(v[d], cnt), d * 1.5)});
  s.coeffs = tg::make_coeffs(ck, s.ncoeffs(), H->seed, idx);
  std::string tabkey = vf::fmt("d=3:orders=%u,%u,%u:count=%s", (unsigned)v[0], (unsigned)v[1], (unsigned)v[2], count_name(cnt));
  H->hint(tabkey);
  auto b = make(s);
  std::vector<tg::Pt> P[3];
  for (int d = 0; d < 3; d++) P[d] = five_points(s.dims[d]);
  for (auto& a : P[0]) for (auto& c : P[1]) for (auto& e : P[2])
    check_point(*b, {a.x, c.x, e.x}, tabkey, std::string(a.cls) + "," + c.cls + "," + e.cls, ck == 0, true);
}

// ---------------------------------------------------------------- d = 4..9
static void run_hi(int d, uint64_t idx, bool thorough) {
  auto ps = hi_patterns(d, thorough);
  uint64_t npts = 1; for (int i = 0; i < d; i++) npts *= 3;
  npts += 2 * d;  // exact-knot sweeps: axis i at k[order] resp. k[naxes], others interior
  uint64_t pi = idx % npts; uint64_t rest = idx / npts;
  int cnt = rest % 2; uint64_t pat = rest / 2;
  const HiPattern& hp = ps[pat];
  Built& b = hi_table(d, hp, cnt, H->seed);
  std::string tabkey = vf::fmt("d=%d:orders=%s:count=%s", d, hp.name ? hp.name : vf::fmt("all%u", hp.orders[0]).c_str(), count_name(cnt));
  H->hint(tabkey);
  std::vector<double> x(d); std::string cls;
  for (int i = 0; i < d; i++) {
    auto P = five_points(b.spec.dims[i]);
    int sel;
    if (pi < npts - 2 * d) { uint64_t t = pi; for (int j = d - 1; j > i; j--) t /= 3; sel = t % 3; }
    else { uint64_t q = pi - (npts - 2 * d); sel = ((int)(q / 2) == i) ? 3 + (q % 2) : 1; }
    x[i] = P[sel].x; cls += (i ? "," : ""); cls += P[sel].cls[0] == 'k' ? (sel == 3 ? "K" : "N") : (P[sel].cls[0] == 'l' ? "L" : (P[sel].cls[0] == 'r' ? "R" : "I"));
  }
  check_point(b, x, tabkey, cls, false, d <= 5);
}

int main(int argc, char** argv) {
  vf::Harness h("C01", argc, argv);
  H = &h;
  h.meta("level", "exploration");
  h.meta("rule", "complete walk of mixed-radix table x point-class spaces (d=1: 6 orders x 6 knot patterns x 3 knot counts x {ones, seeded, wide-range, every unit impulse} x every structural point class; d=2: all 36 order pairs; d=3: all 216 order triples; d=4..9: order patterns x all 3^d margin/interior combinations + exact-knot sweeps), each evaluated through member<float>, member<double>, operator() and the C wrapper, with NaN- and huge-poisoned knot padding, against a long-double Cox-de Boor full sum; a class is distinct by (dimension, orders, knot pattern, knot count, point-class tuple)");
  h.meta("assumption", "reference: ref/bspline_ref.hpp (long double recursion, one-sided convention per property statement)");
  h.meta("assumption", "tolerance K*eps*sum|c|prod|B| with K=4(n_terms+d(2*order+4)) (DESIGN Appendix B)");
  h.meta("assumption", "coefficient values outside the value tables and knot vectors outside the six patterns are not covered");
  h.meta("deadline_quick", "900");
  h.meta("deadline_thorough", "2400");
  h.meta("require_ones_in_full_support", "100");
  h.timeout_s = 60;
  bool T = h.thorough;
  h.add_space("d1", 6 * tg::K_NPATTERNS * 3 * 4, run_d1);
  h.add_space("d2", 6 * 6 * (T ? tg::K_NPATTERNS : 3) * 2 * 2 * 2, [T](uint64_t i) { run_d2(i, T); });
  h.add_space("d3", 6 * 6 * 6 * 2 * 2, run_d3);
  for (int d = 4; d <= 9; d++) {
    uint64_t npts = 1; for (int i = 0; i < d; i++) npts *= 3;
    npts += 2 * d;
    uint64_t np = hi_patterns(d, T).size();
    h.add_space(vf::fmt("d%d", d), np * 2 * npts, [d, T](uint64_t i) { run_hi(d, i, T); });
  }
  return h.main();
}
