// C11 — the non-negative least-squares solvers return the constrained optimum (exhaustive small lattices).
#include "engine/vf.hpp"
#include "ref/linalg_ref.hpp"
#include "monoproblems.hpp"
#include <cholmod.h>
#include <cfloat>
extern "C" {
#include <photospline/detail/splineutil.h>
int __real_walk_descents(cholmod_sparse*, cholmod_dense*, cholmod_dense*, cholmod_dense*, long*, long*, long*, long*, double*, int*, int, cholmod_common*);
static int g_walks = 0;
int __wrap_walk_descents(cholmod_sparse* a, cholmod_dense* b, cholmod_dense* x, cholmod_dense* xf, long* F, long* nF, long* H1, long* nH1, double* r, int* rc, int v, cholmod_common* c) {
  g_walks++; return __real_walk_descents(a, b, x, xf, F, nF, H1, nH1, r, rc, v, c);
}
}
static vf::Harness* H;
using la::ld; using la::Mat;

enum Solver { S_BLOCK3 = 0, S_BLOCK, S_UPDOWN, S_LH_NORMAL, S_LH_LS, S_N };
static const char* SN[] = {"block3", "block", "block_updown", "lawson_hanson(normaleq)", "lawson_hanson(least-squares)"};
static const double LH_TOL = 1e-10;

static cholmod_sparse* to_sparse(const Mat& A, cholmod_common* c) {
  cholmod_dense* d = cholmod_l_allocate_dense(A.n, A.m, A.n, CHOLMOD_REAL, c);
  for (size_t i = 0; i < A.n; i++) for (size_t j = 0; j < A.m; j++) ((double*)d->x)[j * A.n + i] = (double)A(i, j);
  cholmod_sparse* s = cholmod_l_dense_to_sparse(d, 1, c); cholmod_l_free_dense(&d, c); return s;
}
static bool run_solver(int which, const Mat& A, const std::vector<ld>& b, std::vector<double>& x) {
  cholmod_common c; cholmod_l_start(&c);
  size_t n = A.n; cholmod_dense* r = nullptr;
  if (which == S_LH_LS) {
    Mat R; if (!la::chol_factor_upper(A, R)) { cholmod_l_finish(&c); return false; }
    // y = R^{-T} b  so that R'R = A and R'y = b
    std::vector<ld> y(n); for (size_t i = 0; i < n; i++) { ld s = b[i]; for (size_t k = 0; k < i; k++) s -= R(k, i) * y[k]; y[i] = s / R(i, i); }
    cholmod_sparse* Rs = to_sparse(R, &c); cholmod_dense* yd = cholmod_l_allocate_dense(n, 1, n, CHOLMOD_REAL, &c);
    for (size_t i = 0; i < n; i++) ((double*)yd->x)[i] = (double)y[i];
    r = nnls_lawson_hanson(Rs, yd, LH_TOL, 0, 10000, 0, 0, 0, &c);
    cholmod_l_free_sparse(&Rs, &c); cholmod_l_free_dense(&yd, &c);
  } else {
    cholmod_sparse* As = to_sparse(A, &c); cholmod_dense* bd = cholmod_l_allocate_dense(n, 1, n, CHOLMOD_REAL, &c);
    for (size_t i = 0; i < n; i++) ((double*)bd->x)[i] = (double)b[i];
    switch (which) {
      case S_BLOCK3: r = nnls_normal_block3(As, bd, 0, &c); break;
      case S_BLOCK: r = nnls_normal_block(As, bd, 0, &c); break;
      case S_UPDOWN: r = nnls_normal_block_updown(As, bd, 0, &c); break;
      default: r = nnls_lawson_hanson(As, bd, LH_TOL, 0, 10000, 0, 1, 0, &c); break;
    }
    cholmod_l_free_sparse(&As, &c); cholmod_l_free_dense(&bd, &c);
  }
  bool ok = r != nullptr;
  if (ok) { x.assign((double*)r->x, (double*)r->x + n); cholmod_l_free_dense(&r, &c); }
  cholmod_l_finish(&c);
  return ok;
}

static std::string sys_str(const Mat& A, const std::vector<ld>& b) {
  std::string s = "A=["; for (size_t i = 0; i < A.n; i++) { s += i ? ";" : ""; for (size_t j = 0; j < A.n; j++) s += vf::fmt("%s%.17g", j ? "," : "", (double)A(i, j)); }
  s += "] b=["; for (size_t i = 0; i < b.size(); i++) s += vf::fmt("%s%.17g", i ? "," : "", (double)b[i]); return s + "]";
}

static void check_system(const Mat& A, const std::vector<ld>& b, const std::string& fam) {
  size_t n = A.n;
  la::NnlsRef ref = la::nnls_bruteforce(A, b);
  if (!ref.ok) { H->count("reference_not_decisive"); return; }
  ld kappa = la::cond_inf(A); if (kappa <= 0) { H->count("not_spd_skipped"); return; }
  ld nA = la::norm_inf(A), nb = 0; for (auto v : b) nb = std::max(nb, fabsl(v));
  ld scale = std::max<ld>(1, std::max(nA, nb));
  int psize = __builtin_popcount(ref.passive);
  H->count(vf::fmt("optimal_passive_set_size_%d", psize).c_str());
  if (ref.degenerate) H->count("degenerate_systems");
  for (int s = 0; s < S_N; s++) {
    std::vector<double> x; int w0 = g_walks;
    bool ok = run_solver(s, A, b, x);
    bool walked = g_walks > w0; if (s == S_BLOCK3 && walked) H->count("block3_entered_line_search");
    H->count("evaluations");
    std::string cls = std::string(SN[s]) + (walked ? ":after-line-search" : "") + (ref.degenerate ? ":degenerate" : "");
    std::string where = vf::fmt("[%s %s n=%zu kappa=%.3g] %s x*=", fam.c_str(), SN[s], n, (double)kappa, sys_str(A, b).c_str());
    for (size_t i = 0; i < n; i++) where += vf::fmt("%s%.12g", i ? "," : "", (double)ref.x[i]);
    if (!ok) { H->violation(cls + ":returned-null", where); continue; }
    where += " x="; for (size_t i = 0; i < n; i++) where += vf::fmt("%s%.12g", i ? "," : "", x[i]);
    double tol_solver = s == S_BLOCK3 ? (double)n * DBL_EPSILON * 1e5 : (s == S_BLOCK || s == S_UPDOWN ? 1e-6 : LH_TOL);
    ld tol = 10 * tol_solver * scale * kappa;
    bool bad = false;
    for (size_t i = 0; i < n; i++) if (!std::isfinite(x[i])) { H->violation(cls + ":non-finite", where); bad = true; break; }
    if (bad) continue;
    for (size_t i = 0; i < n; i++) {
      if (s == S_BLOCK3 ? (x[i] < 0) : (x[i] < -tol_solver * (double)scale)) { H->violation(cls + ":negative-component", where); bad = true; break; }
    }
    ld dist = 0; for (size_t i = 0; i < n; i++) dist = std::max(dist, fabsl((ld)x[i] - ref.x[i]));
    for (size_t i = 0; i < n && !bad; i++) {
      ld g = -b[i]; for (size_t j = 0; j < n; j++) g += A(i, j) * (ld)x[j];
      if (x[i] > (double)tol) { if (fabsl(g) > tol) { H->violation(cls + ":kkt-gradient-nonzero-on-positive-component", where + vf::fmt(" grad[%zu]=%.6g tol=%.3g", i, (double)g, (double)tol)); bad = true; } }
      else if (g < -tol) { H->violation(cls + ":kkt-gradient-negative-on-zero-component", where + vf::fmt(" grad[%zu]=%.6g tol=%.3g", i, (double)g, (double)tol)); bad = true; }
    }
    if (!bad && dist > kappa * tol) H->violation(cls + ":far-from-optimum", where + vf::fmt(" dist=%.6g", (double)dist));
    H->cls(vf::fmt("%s|n=%zu|passive=%d%s%s", SN[s], n, psize, ref.degenerate ? "|degenerate" : "", walked ? "|walked" : ""));
  }
  if (H->want_sample()) H->sample("{\"family\":\"" + fam + "\",\"system\":\"" + sys_str(A, b) + "\"}");
}

// larger sparse systems checked through the KKT residual: the normal equations of monotonic fits (as the fit builds them)
static void run_fitsys(uint64_t idx) {
  mp::NdCase C = mp::nd_case(idx, H->seed);
  if (!C.valid) return;
  fitref::Solution S = fitref::solve(C.P);
  if (!S.spd || !(S.kappa <= 1e8L) || C.P.ncoef() > 400) { H->count("fit_systems_skipped_ill_posed_or_large"); return; }
  Mat A; std::vector<ld> b; fitref::mono_system(C.P, S, C.mono, A, b);
  size_t n = A.n; std::string fam = "fit-system:" + C.where; H->hint("fit-system d=" + std::to_string(C.d));
  setenv("OMP_NUM_THREADS", std::to_string(C.nthreads).c_str(), 1);
  ld nA = la::norm_inf(A), nb = 0; for (auto v : b) nb = std::max(nb, fabsl(v)); ld scale = std::max<ld>(1, std::max(nA, nb));
  for (int s = 0; s < S_N; s++) {
    if (s == S_LH_LS) continue;   // the least-squares form needs a Cholesky factor of an ill-conditioned matrix; covered by the lattices
    std::vector<double> x; int w0 = g_walks;
    bool ok = run_solver(s, A, b, x); bool walked = g_walks > w0; if (s == S_BLOCK3 && walked) H->count("block3_entered_line_search");
    H->count("evaluations"); H->count("fit_systems_solved");
    std::string cls = std::string(SN[s]) + ":fit-system" + (walked ? ":after-line-search" : "");
    std::string where = vf::fmt("[%s n=%zu kappa=%.3g] %s", SN[s], n, (double)S.kappa, C.where.c_str());
    if (!ok) { H->violation(cls + ":returned-null", where); continue; }
    double tol_solver = s == S_BLOCK3 ? (double)n * DBL_EPSILON * 1e5 : (s == S_BLOCK || s == S_UPDOWN ? 1e-6 : LH_TOL);
    bool bad = false; ld xmax = 0; for (auto v : x) { if (!std::isfinite(v)) { H->violation(cls + ":non-finite", where); bad = true; break; } xmax = std::max(xmax, fabsl((ld)v)); }
    if (bad) continue;
    for (size_t i = 0; i < n && !bad; i++) if (s == S_BLOCK3 ? (x[i] < 0) : (x[i] < -tol_solver * (double)scale)) { H->violation(cls + ":negative-component", where + vf::fmt(" x[%zu]=%.6g", i, x[i])); bad = true; }
    for (size_t i = 0; i < n && !bad; i++) {
      ld g = -b[i], ga = fabsl(b[i]); for (size_t j = 0; j < n; j++) { g += A(i, j) * (ld)x[j]; ga += fabsl(A(i, j) * (ld)x[j]); }
      // the KKT residual is what the solver controls directly: its stopping constant (absolute) plus backward-stable linear algebra
      ld tol = 10 * tol_solver * scale + 1e3 * n * 2.3e-16L * ga * std::max<ld>(1, sqrtl(S.kappa));
      if (x[i] > 10 * tol_solver * (double)std::max<ld>(1, xmax)) { if (fabsl(g) > tol) { H->violation(cls + ":kkt-gradient-nonzero-on-positive-component", where + vf::fmt(" grad[%zu]=%.6g tol=%.3g x=%.6g", i, (double)g, (double)tol, x[i])); bad = true; } }
      else if (g < -tol) { H->violation(cls + ":kkt-gradient-negative-on-zero-component", where + vf::fmt(" grad[%zu]=%.6g tol=%.3g", i, (double)g, (double)tol)); bad = true; }
    }
    H->cls(vf::fmt("%s|fit-system|d=%d|%s%s", SN[s], C.d, mp::DN[C.dk], walked ? "|walked" : ""));
  }
}

static const double EPS[] = {1e-3, 1.0, 1e-6};
static void run_lattice(int n, uint64_t idx, int neps) {
  uint64_t nM = 1; for (int i = 0; i < 3 * n; i++) nM *= 3;
  int e = idx / nM; uint64_t mi = idx % nM; (void)neps;
  Mat M(3, n); uint64_t q = mi; for (int i = 0; i < 3; i++) for (int j = 0; j < n; j++) { M(i, j) = (ld)((int)(q % 3) - 1); q /= 3; }
  Mat A(n, n); for (int i = 0; i < n; i++) for (int j = 0; j < n; j++) { ld s = 0; for (int k = 0; k < 3; k++) s += M(k, i) * M(k, j); A(i, j) = s + (i == j ? (ld)EPS[e] : 0); }
  std::string fam = vf::fmt("lattice:n=%d:eps=%g", n, EPS[e]);
  H->hint(fam);
  int R = n == 2 ? 5 : 3, lo = n == 2 ? -2 : -1; uint64_t nb = 1; for (int i = 0; i < n; i++) nb *= R;
  for (uint64_t bi = 0; bi < nb; bi++) { std::vector<ld> b(n); uint64_t t = bi; for (int i = 0; i < n; i++) { b[i] = (ld)(lo + (int)(t % R)); t /= R; } check_system(A, b, fam); }
}

// banded Toeplitz families, scaled rows/columns, degenerate (tie) right-hand sides
static void run_family(uint64_t idx, int nmax) {
  static const double TZ[3][3] = {{4, 1, 0}, {2, -1, 0}, {6, -4, 1}};
  int nn = nmax - 3; int n = 4 + idx % nn; uint64_t r = idx / nn; int fam = r % 3; r /= 3; int scaling = r % 5; r /= 5; int mode = r;  // mode 0: sign patterns of b; mode 1: degenerate ties
  Mat A(n, n);
  for (int i = 0; i < n; i++) for (int j = 0; j < n; j++) { int d = abs(i - j); A(i, j) = d < 3 ? (ld)TZ[fam][d] : 0; }
  std::vector<ld> D(n, 1);
  if (scaling) for (int i = 0; i < n; i++) { int k = scaling; D[i] = powl(10.0L, (ld)((i % 2 ? 1 : -1) * ((i * k) % (k + 1)))); }
  for (int i = 0; i < n; i++) for (int j = 0; j < n; j++) A(i, j) *= D[i] * D[j];
  std::string f = vf::fmt("toeplitz(%g,%g,%g):n=%d:scaling=%d:%s", TZ[fam][0], TZ[fam][1], TZ[fam][2], n, scaling, mode ? "ties" : "signs");
  H->hint(f);
  if (mode == 0) {
    for (uint32_t sp = 0; sp < (1u << n); sp++) { std::vector<ld> b(n); for (int i = 0; i < n; i++) b[i] = ((sp >> i & 1) ? -1 : 1) * (ld)(1 + (i * 7 + sp) % 3) * D[i]; check_system(A, b, f); }
  } else {
    // x* has zeros on a chosen subset Z and the gradient there is exactly zero too: b = A x*
    for (uint32_t Z = 1; Z < (1u << n); Z += (n > 6 ? 5 : 1)) { std::vector<ld> xs(n), b(n, 0); for (int i = 0; i < n; i++) xs[i] = (Z >> i & 1) ? 0 : (ld)(1 + i % 3) / D[i]; for (int i = 0; i < n; i++) for (int j = 0; j < n; j++) b[i] += A(i, j) * xs[j]; check_system(A, b, f); }
  }
}

int main(int argc, char** argv) {
  vf::Harness h("C11", argc, argv);
  H = &h;
  h.meta("level", "exploration");
  h.meta("rule", "exhaustive lattices: n=2: A=M'M+eps*I for ALL M in {-1,0,1}^(3x2), eps in {1e-3,1} (thorough adds 1e-6), ALL b in {-2..2}^2; n=3: ALL M in {-1,0,1}^(3x3) x ALL b in {-1,0,1}^3; n=4..8 (thorough ..10): banded Toeplitz families (4,1),(2,-1),(6,-4,1) x 5 diagonal scalings up to 10^+-4 x all 2^n sign patterns of b, and degenerate right-hand sides b=A x* with zeros of x* on every subset (zero multiplier ties); and the normal equations of every monotonic fit problem of the C10 alphabet (up to 400 unknowns, KKT residual only); every system through nnls_normal_block3, nnls_normal_block, nnls_normal_block_updown and nnls_lawson_hanson in normal-equation and least-squares form; oracle = 2^n active-set brute force in long double (KKT), tolerance tied to each solver's stated constant, problem scale and condition number; distinct = (solver, n, size of the optimal passive set, degenerate?, line search entered?)");
  h.meta("assumption", "reference: ref/linalg_ref.hpp; tolerances: block3 n*eps*1e5, block/updown KKT_TOL=1e-6, Lawson-Hanson tolerance argument 1e-10; times max(1,|A|,|b|) and cond(A)");
  h.meta("require_block3_entered_line_search", "50");
  h.meta("require_degenerate_systems", "50");
  h.meta("require_fit_systems_solved", "1000");
  h.meta("deadline_quick", "900"); h.meta("deadline_thorough", "3000");
  h.timeout_s = 180;
  int neps = h.thorough ? 3 : 2;
  h.add_space("n2", 729ull * neps, [neps](uint64_t i) { run_lattice(2, i, neps); });
  h.add_space("n3", 19683ull * neps, [neps](uint64_t i) { run_lattice(3, i, neps); });
  int nmax = h.thorough ? 10 : 8;
  h.add_space("families", (uint64_t)(nmax - 3) * 3 * 5 * 2, [nmax](uint64_t i) { run_family(i, nmax); });
  h.add_space("fitsys", mp::ND_SIZE, run_fitsys);
  return h.main();
}
