// C15 — permuting dimensions relabels axes without changing the function: the permutation group as a state graph.
#include "engine/vf.hpp"
#include <algorithm>
#include "engine/tablegen.hpp"
#include "engine/evalspace.hpp"
#include "ref/bspline_ref.hpp"
#include <photospline/cinter/splinetable.h>
#include <deque>
using namespace es;
static vf::Harness* H;
typedef std::vector<size_t> Perm;

// reference model: a plain record, permuted by independent index arithmetic
struct Model { std::vector<uint32_t> order; std::vector<std::vector<double>> knots; std::vector<double> ext_lo, ext_hi, period; std::vector<uint64_t> naxes; std::vector<float> c; };
static Model model_of(const tg::TableSpec& s) {
  Model m; for (size_t i = 0; i < s.dims.size(); i++) { m.order.push_back(s.dims[i].order); m.knots.push_back(s.dims[i].knots); m.naxes.push_back(s.dims[i].naxes()); m.ext_lo.push_back(s.extents[2 * i]); m.ext_hi.push_back(s.extents[2 * i + 1]); m.period.push_back(s.periods[i]); }
  m.c = s.coeffs; return m;
}
static Model permute(const Model& m, const Perm& p) {   // new dimension i is old dimension p[i]
  size_t n = p.size(); Model r;
  for (size_t i = 0; i < n; i++) { r.order.push_back(m.order[p[i]]); r.knots.push_back(m.knots[p[i]]); r.naxes.push_back(m.naxes[p[i]]); r.ext_lo.push_back(m.ext_lo[p[i]]); r.ext_hi.push_back(m.ext_hi[p[i]]); r.period.push_back(m.period[p[i]]); }
  r.c.assign(m.c.size(), 0.f);
  std::vector<uint64_t> so(n), sn(n); so[n - 1] = sn[n - 1] = 1; for (size_t i = n - 1; i > 0; i--) { so[i - 1] = so[i] * m.naxes[i]; sn[i - 1] = sn[i] * r.naxes[i]; }
  std::vector<uint64_t> j(n, 0);   // multi-index in the NEW table
  for (uint64_t pos = 0; pos < r.c.size(); pos++) {
    uint64_t q = pos; for (size_t i = 0; i < n; i++) { j[i] = q / sn[i]; q %= sn[i]; }
    uint64_t old = 0; for (size_t i = 0; i < n; i++) old += j[i] * so[p[i]];
    r.c[pos] = m.c[old];
  }
  return r;
}
static std::string canon(const Table& t) {   // canonical form of the real object (everything the property talks about)
  std::string s; auto add = [&](const void* p, size_t n) { s.append((const char*)p, n); };
  add(&t.ndim, 4);
  for (uint32_t i = 0; i < t.ndim; i++) { add(&t.order[i], 4); add(&t.nknots[i], 8); add(&t.naxes[i], 8); add(&t.strides[i], 8); add(&t.knots[i][0], 8 * t.nknots[i]); add(&t.extents[i][0], 16); add(&t.periods[i], 8); }
  add(&t.coefficients[0], 4 * t.get_ncoeffs());
  return s;
}
static std::string canon(const Model& m) {
  std::string s; auto add = [&](const void* p, size_t n) { s.append((const char*)p, n); };
  uint32_t nd = m.order.size(); add(&nd, 4);
  std::vector<uint64_t> st(nd); st[nd - 1] = 1; for (size_t i = nd - 1; i > 0; i--) st[i - 1] = st[i] * m.naxes[i];
  for (uint32_t i = 0; i < nd; i++) { uint64_t nk = m.knots[i].size(); add(&m.order[i], 4); add(&nk, 8); add(&m.naxes[i], 8); add(&st[i], 8); add(m.knots[i].data(), 8 * nk); add(&m.ext_lo[i], 8); add(&m.ext_hi[i], 8); add(&m.period[i], 8); }
  add(m.c.data(), 4 * m.c.size());
  return s;
}
static std::string diff_field(const Table& t, const Model& m) {
  for (uint32_t i = 0; i < t.ndim; i++) {
    if (t.order[i] != m.order[i]) return "order"; if (t.nknots[i] != m.knots[i].size()) return "knot-count"; if (t.naxes[i] != m.naxes[i]) return "coefficient-count";
    if (memcmp(&t.knots[i][0], m.knots[i].data(), 8 * t.nknots[i])) return "knots"; if (t.extents[i][0] != m.ext_lo[i] || t.extents[i][1] != m.ext_hi[i]) return "extents"; if (t.periods[i] != m.period[i]) return "periods";
  }
  if (memcmp(&t.coefficients[0], m.c.data(), 4 * m.c.size())) return "coefficients";
  return "strides";
}
static Perm compose(const Perm& a, const Perm& g) { Perm r(a.size()); for (size_t i = 0; i < a.size(); i++) r[i] = a[g[i]]; return r; }   // apply g after a
static Perm inverse(const Perm& p) { Perm r(p.size()); for (size_t i = 0; i < p.size(); i++) r[p[i]] = i; return r; }

// shape 0: pairwise different coefficient counts (every relocation changes the strides); shape 1: the same count in every dimension;
// shape 2: counts alternating 5,7,5,7 - there a permutation can leave the SHAPE of the coefficient array unchanged although the
// contents have to move (orders, knots, extents and periods still differ between the dimensions)
static int g_shape = 0;
static tg::TableSpec base_spec(int n, long seed) {
  tg::TableSpec s;
  for (int i = 0; i < n; i++) { uint32_t o = (uint32_t)((i * 2 + 1) % 4); uint64_t nk = g_shape == 0 ? 2 * o + 2 + (n <= 5 ? i + 1 : (i % 3)) : (g_shape == 1 ? (n <= 4 ? 6 : 4) : (n <= 4 ? (i % 2 ? 7 : 5) : (i % 2 ? 5 : 4))) + o + 1; s.dims.push_back({o, tg::make_knots(i % 2 ? tg::K_IRREGULAR : tg::K_UNIFORM, o, nk, 0.75 * i)}); s.extents.push_back(s.dims[i].knots.front() - 0.5 - i); s.extents.push_back(s.dims[i].knots.back() + 0.25 * (i + 1)); s.periods.push_back(10.0 * (i + 1)); }
  s.coeffs = tg::make_coeffs(1, s.ncoeffs(), seed, n);
  return s;
}

static void explore(int n) {
  tg::TableSpec spec = base_spec(n, H->seed);
  Model base = model_of(spec);
  std::string ck = vf::fmt("n=%d", n); H->hint(ck);
  // generators: adjacent transpositions, the n-cycle and its inverse
  std::vector<Perm> gens; Perm id(n); for (int i = 0; i < n; i++) id[i] = i;
  for (int i = 0; i + 1 < n; i++) { Perm g = id; std::swap(g[i], g[i + 1]); gens.push_back(g); }
  if (n >= 3) { Perm c(n); for (int i = 0; i < n; i++) c[i] = (i + 1) % n; gens.push_back(c); gens.push_back(inverse(c)); }
  if (n == 1) gens.push_back(id);
  std::map<Perm, std::string> canon_of; std::map<std::string, Perm> perm_of; std::map<Perm, std::vector<int>> path_of;
  std::deque<Perm> frontier; frontier.push_back(id); path_of[id] = {};
  auto rebuild = [&](const std::vector<int>& path, Table& t) { tg::build(t, spec); for (int g : path) t.permuteDimensions(gens[g]); };
  { Table t0; rebuild({}, t0); canon_of[id] = canon(t0); perm_of[canon_of[id]] = id; if (canon_of[id] != canon(base)) H->violation("harness:model-differs-from-initial-table", ck); }
  uint64_t states = 1, transitions = 0;
  // evaluation points (in the ORIGINAL coordinate order)
  std::vector<std::vector<double>> pts; for (int r = 0; r < 4; r++) { std::vector<double> x(n); for (int i = 0; i < n; i++) { const auto& D = spec.dims[i]; uint64_t lo = r == 0 ? D.order : (r == 1 ? 0 : (r == 2 ? D.knots.size() - 2 : D.order + (D.naxes() - D.order) / 2)); x[i] = D.knots[lo] + (0.3 + 0.1 * r) * (D.knots[lo + 1] - D.knots[lo]); } pts.push_back(x); }
  auto views0 = spec.views();
  auto check_transition = [&](const Perm& from, const std::vector<int>& path, const Perm& g, const std::string& glabel, bool via_c) -> Perm {
    Table t; rebuild(path, t);
    std::string before = canon(t);
    if (via_c) { struct splinetable st; st.data = &t; std::vector<size_t> gg(g); if (splinetable_permute(&st, gg.data()) != 0) H->violation("C-permute-failed", ck + " " + glabel); }
    else t.permuteDimensions(g);
    transitions++;
    Perm to = compose(from, g);
    Model want = permute(base, to);
    std::string got = canon(t);
    std::string where = vf::fmt("[%s] state %s --%s--> %s", ck.c_str(), vf::vecstr(from).c_str(), glabel.c_str(), vf::vecstr(to).c_str());
    if (got != canon(want)) H->violation("permuted-table-differs-from-model:" + diff_field(t, want), where);
    else {
      // same function at correspondingly permuted points
      for (auto& x : pts) { std::vector<double> xp(n); for (int i = 0; i < n; i++) xp[i] = x[to[i]]; std::vector<int> c(n); if (!t.searchcenters(xp.data(), c.data())) continue; double v = t.ndsplineeval<double>(xp.data(), c.data(), 0); ref::EvalResult r = ref::full_eval(views0, spec.coeffs.data(), x.data(), nullptr); if (fabs(v - (double)r.value) > 64 * 2.3e-16 * (double)r.mag * (r.nterms + 8) + 1e-300) H->violation("permuted-table-evaluates-differently", where + vf::fmt(" x=%s: %.17g vs %.17g", vf::vecstr(x).c_str(), v, (double)r.value)); H->count("evaluations"); }
    }
    // the inverse restores a table equal to the predecessor
    { Perm gi = inverse(g); t.permuteDimensions(gi); Table pre; rebuild(path, pre); if (canon(t) != before || !(t == pre)) H->violation("inverse-permutation-does-not-restore", where); }
    // every group element has exactly one canonical form, whatever the route
    auto it = canon_of.find(to);
    if (it == canon_of.end()) { canon_of[to] = got; auto pit = perm_of.find(got); if (pit != perm_of.end() && pit->second != to) H->violation("two-group-elements-share-a-table", where); perm_of[got] = to; }
    else if (it->second != got) H->violation("route-dependent-result", where);
    return to;
  };
  while (!frontier.empty()) {
    Perm cur = frontier.front(); frontier.pop_front();
    std::vector<int> path = path_of[cur];
    for (size_t gi = 0; gi < gens.size(); gi++) {
      Perm to = check_transition(cur, path, gens[gi], "gen" + vf::vecstr(gens[gi]), (gi % 3 == 2));
      if (!path_of.count(to)) { auto p = path; p.push_back(gi); path_of[to] = p; frontier.push_back(to); states++; }
    }
    // malformed arguments at every state: exception and unchanged table
    { Table t; rebuild(path, t); std::string before = canon(t);
      std::vector<Perm> bad; { Perm b = id; b.push_back(n); bad.push_back(b); } if (n > 0) { Perm b = id; b.pop_back(); bad.push_back(b); } if (n > 1) { Perm b = id; b[0] = b[1]; bad.push_back(b); } { Perm b = id; b[n - 1] = n; bad.push_back(b); } { Perm b = id; b[0] = (size_t)-1; bad.push_back(b); } bad.push_back(Perm());
      // values that alias a valid index when narrowed to 32 or 16 bits (each entry in turn, and all at once), a repeated index plus its alias
      if (sizeof(size_t) > 4) { for (size_t i = 0; i < n; i++) for (int sh : {16, 32, 33}) { Perm b = id; b[i] += (size_t)1 << sh; bad.push_back(b); } { Perm b = id; for (auto& e : b) e += (size_t)1 << 32; bad.push_back(b); } if (n > 1) { Perm b = id; std::reverse(b.begin(), b.end()); b[0] += (size_t)3 << 32; bad.push_back(b); } }
      for (auto& b : bad) { bool threw = false; try { t.permuteDimensions(b); } catch (std::exception&) { threw = true; } transitions++; if (!threw) H->violation("malformed-permutation-accepted", vf::fmt("[%s] state %s argument %s", ck.c_str(), vf::vecstr(cur).c_str(), vf::vecstr(b).c_str())); if (canon(t) != before) H->violation("malformed-permutation-changed-the-table", vf::fmt("[%s] argument %s", ck.c_str(), vf::vecstr(b).c_str())); }
      if (n > 1) { struct splinetable st; st.data = &t; std::vector<size_t> b(id); b[0] = b[1]; if (splinetable_permute(&st, b.data()) == 0) H->violation("C-permute-accepted-malformed-argument", ck); if (canon(t) != before) H->violation("malformed-permutation-changed-the-table", ck + " (C)"); } }
    // start from non-initial states: every permutation applied directly (all n! x n! pairs for n <= 4)
    if (n <= 4) { Perm p = id; do { check_transition(cur, path, p, "direct" + vf::vecstr(p), false); } while (std::next_permutation(p.begin(), p.end())); }
  }
  uint64_t nfact = 1; for (int i = 2; i <= n; i++) nfact *= i;
  if (states != nfact) H->violation("state-graph-is-not-the-whole-group", vf::fmt("%s: %llu states, %llu expected", ck.c_str(), (unsigned long long)states, (unsigned long long)nfact));
  H->count("states", states); H->count("transitions", transitions); H->count("traces_validated_against_impl", transitions);
  H->note(vf::fmt("%s: states=%llu transitions=%llu coefficients=%llu", ck.c_str(), (unsigned long long)states, (unsigned long long)transitions, (unsigned long long)spec.ncoeffs()));
  H->cls(ck);
  H->sample(vf::fmt("{\"n\":%d,\"orders\":%s,\"naxes\":%s,\"generators\":%zu,\"states\":%llu}", n, vf::vecstr(base.order).c_str(), vf::vecstr(base.naxes).c_str(), gens.size(), (unsigned long long)states));
}

int main(int argc, char** argv) {
  vf::Harness h("C15", argc, argv);
  H = &h;
  h.meta("level", "model_checking");
  h.meta("rule", "breadth-first search of the whole permutation group as a state graph on the real object: states = canonical form of the table (orders, knot vectors, coefficient counts, strides, extents, periods, coefficient array), transitions = permuteDimensions with every adjacent transposition, the n-cycle and its inverse (every third through the C wrapper), searched to the fixpoint (all n! states, n=1..5, n=6 in thorough); from every state additionally every permutation applied directly (n<=4) and six malformed arguments; each transition rebuilds the state by replaying its shortest path on a fresh table, applies the operation, and compares with a reference model that permutes a plain record by independent index arithmetic, with evaluation at correspondingly permuted points, with the inverse permutation, and with the canonical form recorded for the same group element on other routes");
  h.meta("assumption", "tables with pairwise different orders, extents and periods; coefficient counts pairwise different, all equal, or alternating (so that some permutations leave the shape of the coefficient array unchanged); coefficient values seeded");
  h.meta("require_states", "100");
  h.timeout_s = 600;
  int nmax = h.thorough ? 6 : 5;
  h.add_space("groups", 3 * nmax, [nmax](uint64_t i) { g_shape = (int)(i / nmax); explore((int)(i % nmax) + 1); });
  return h.main();
}
