// C20 — a table object stays valid and leak-free across any history, even failed calls (BFS + allocation-fault enumeration).
#include "engine/vf.hpp"
#include "engine/tablegen.hpp"
#include "engine/alloc.hpp"
#include <photospline/splinetable.h>
#include <deque>
typedef photospline::splinetable<ta::TrackAlloc<void>> TT;
typedef photospline::splinetable<> PlainTable;
static vf::Harness* H;

// ---------------------------------------------------------------- fixtures
struct Fix { std::vector<unsigned char> g1, g2, corrupt; };
static Fix& fix() {
  static Fix F; if (!F.g1.empty()) return F;
  auto mk = [](std::vector<uint32_t> orders, std::vector<uint64_t> nax, bool aux) {
    tg::TableSpec s; for (size_t i = 0; i < orders.size(); i++) s.dims.push_back({orders[i], tg::make_knots(i % 2 ? tg::K_IRREGULAR : tg::K_UNIFORM, orders[i], nax[i] + orders[i] + 1, 0.5 * i)});
    s.coeffs = tg::make_coeffs(1, s.ncoeffs(), 11, orders.size()); for (size_t i = 0; i < orders.size(); i++) s.periods.push_back(i);
    PlainTable t; tg::build(t, s); if (aux) { t.write_key("SRC", std::string("one")); t.write_key("NUM", 7); }
    auto b = t.write_fits_mem(); std::vector<unsigned char> v((unsigned char*)b.first, (unsigned char*)b.first + b.second); free(b.first); return v;
  };
  F.g1 = mk({2}, {5}, true); F.g2 = mk({1, 2}, {4, 5}, false);
  F.corrupt = F.g2; { std::string hay(F.corrupt.begin(), F.corrupt.end()); size_t p = hay.find("KNOTS1"); if (p != std::string::npos) F.corrupt[p + 5] = '7'; }   // the second knot vector cannot be found: fails late, after most arrays exist
  return F;
}

// ---------------------------------------------------------------- symbolic model
struct Sym {
  bool populated = false; std::string base; int conv = 0; std::string convseq; /* ORIGINAL axes convolved, in order: the float rounding of the coefficients depends on the order */ bool perm = false; std::vector<std::pair<std::string, std::string>> aux;
  std::string str() const { std::string s = populated ? base + (conv ? "*conv[" + convseq + "]" : "") + (perm ? "*perm" : "") : "EMPTY"; for (auto& a : aux) s += "+" + a.first + "=" + a.second; return s; }
  std::string core() const { return populated ? base + "/" + convseq + "/" + (perm ? "p" : "") : "EMPTY"; }
  int ndim() const { return !populated ? 0 : (base == "G2" ? 2 : 1); }
};
struct World { Sym o[2]; std::string str() const { return o[0].str() + " | " + o[1].str(); } };

enum OpK { O_READ_G1, O_READ_G2, O_READ_CORRUPT, O_READ_MISSING, O_FIT, O_FIT_INVALID, O_WKEY1, O_WKEY2, O_WKEY_BAD, O_RKEY1, O_CONVOLVE, O_CONVOLVE_BAD_DIM, O_CONVOLVE_ONE_KNOT, O_PERMUTE, O_PERMUTE_BAD, O_MOVE_CONSTRUCT, O_MOVE_ASSIGN, O_SELF_ASSIGN, O_COMPARE, O_WRITE_MEM, O_WRITE_BADPATH, O_EVAL, O_RECREATE, O_NKINDS };
static const char* OPN[] = {"read_fits_mem(G1)", "read_fits_mem(G2)", "read_fits_mem(corrupt)", "read_fits(missing)", "fit(valid)", "fit(invalid)", "write_key(K1,v)", "write_key(K2,42)", "write_key(ORDER9,x)", "remove_key(K1)", "convolve", "convolve(dim=ndim)", "convolve(one kernel knot)", "permute(reverse)", "permute(invalid)", "move-construct other<-this", "move-assign this<-other", "self move-assign", "==,!=", "write_fits_mem", "write_fits(unwritable)", "evaluate", "destroy+recreate"};
struct Op { int kind; int obj; std::string label() const { return std::string(obj ? "b." : "a.") + OPN[kind]; } };

static void wk(std::vector<std::pair<std::string, std::string>>& aux, const std::string& k, const std::string& v) { for (auto& a : aux) if (a.first == k) { a.second = v; return; } aux.push_back({k, v}); }
// expected effect; returns: 0 = must not throw, 1 = must throw (state unchanged), -1 = operation not applicable in this state
static int model_step(World& w, const Op& op) {
  Sym& s = w.o[op.obj]; Sym& t = w.o[1 - op.obj];
  switch (op.kind) {
    case O_READ_G1: case O_READ_G2: if (s.populated) return 1; s = Sym(); s.populated = true; s.base = op.kind == O_READ_G1 ? "G1" : "G2"; if (op.kind == O_READ_G1) { s.aux = {{"SRC", "one"}, {"NUM", "7"}}; } return 0;
    case O_READ_CORRUPT: case O_READ_MISSING: if (s.populated) return 1; s.aux.clear(); return 1;   // (a failed read may drop stray keys of an empty table)
    case O_FIT: s = Sym(); s.populated = true; s.base = "FIT"; return 0;
    case O_FIT_INVALID: return 1;
    case O_WKEY1: wk(s.aux, "K1", "v"); return 0;
    case O_WKEY2: wk(s.aux, "K2", "42"); return 0;
    case O_WKEY_BAD: return 1;
    case O_RKEY1: for (size_t i = 0; i < s.aux.size(); i++) if (s.aux[i].first == "K1") { s.aux.erase(s.aux.begin() + i); break; } return 0;
    case O_CONVOLVE: if (!s.populated || s.conv >= 2) return -1; s.conv++; s.convseq += ((s.perm && s.ndim() >= 2) ? '1' : '0'); return 0;   // dimension 0 of the current labelling
    case O_CONVOLVE_BAD_DIM: return 1;                                   // a dimension that does not exist (for an empty table: dimension 0) is invalid input
    case O_CONVOLVE_ONE_KNOT: if (!s.populated) return -1; return 1;     // a kernel needs at least two knots
    case O_PERMUTE: if (s.populated && s.ndim() >= 2) s.perm = !s.perm; return 0;   // on an empty table the empty permutation is the identity: a no-op
    case O_PERMUTE_BAD: return 1;
    case O_MOVE_CONSTRUCT: t = s; s = Sym(); return 0;
    case O_MOVE_ASSIGN: std::swap(s, t); return 0;   // implemented as a swap: the source keeps the target's former contents
    case O_SELF_ASSIGN: return 0;
    case O_COMPARE: return 0;
    case O_WRITE_MEM: return s.populated ? 0 : 1;
    case O_WRITE_BADPATH: return 1;
    case O_EVAL: if (!s.populated) return -1; return 0;
    case O_RECREATE: s = Sym(); return 0;
  }
  return -1;
}

// ---------------------------------------------------------------- real objects
static std::string digest(const TT& t) {
  std::string s; auto add = [&](const void* p, size_t n) { s.append((const char*)p, n); };
  add(&t.ndim, 4);
  for (uint32_t i = 0; i < t.ndim; i++) { add(&t.order[i], 4); add(&t.nknots[i], 8); add(&t.naxes[i], 8); add(&t.strides[i], 8); add(&t.knots[i][0], 8 * t.nknots[i]); if (t.extents) add(&t.extents[i][0], 16); double per = t.periods ? t.periods[i] : 0.0; add(&per, 8); /* a table without periods is written without PERIODn keys and read back with zeros */ }
  if (t.ndim) add(&t.coefficients[0], 4 * t.get_ncoeffs());
  for (uint32_t i = 0; i < t.naux; i++) { std::string v = &t.aux[i][1][0]; while (!v.empty() && v.back() == ' ') v.pop_back(); s += std::string("|") + &t.aux[i][0][0] + "=" + v; }
  return s;
}
static bool structurally_sound(const TT& t, std::string& why) {
  if (t.ndim == 0) { if (t.order || t.knots || t.nknots || t.coefficients || t.naxes || t.strides || t.extents || t.periods) { why = "empty table holds array pointers"; return false; } return true; }
  if (!t.order || !t.knots || !t.nknots || !t.coefficients || !t.naxes || !t.strides || !t.extents) { why = "populated table misses an array"; return false; }
  for (uint32_t i = 0; i < t.ndim; i++) { if (!t.knots[i]) { why = "null knot vector"; return false; } if (t.naxes[i] != t.nknots[i] - t.order[i] - 1) { why = "naxes inconsistent"; return false; } }
  return true;
}
static volatile double g_sink;
// the two objects draw from two different arenas of the stateful tracking allocator: storage that changes hands (move
// construction / assignment) must take its allocator along
static TT* fresh(int slot) { return new TT(ta::TrackAlloc<void>(slot + 1)); }
struct Real { std::unique_ptr<TT> o[2]; Real() { o[0].reset(fresh(0)); o[1].reset(fresh(1)); } };

static void do_fit(TT& t, bool valid) {
  uint32_t order = 2; size_t nb = 6; std::vector<double> knots; for (size_t i = 0; i < nb + order + 1; i++) knots.push_back((double)i);
  size_t npts = 12; std::vector<double> xs; for (size_t i = 0; i < npts; i++) xs.push_back(2.05 + i * 0.45);
  photospline::ndsparse data(npts, 1); std::vector<double> w(npts, 1.0);
  for (unsigned i = 0; i < npts; i++) data.insertEntry(0.5 * i + (i % 3), &i);
  std::vector<std::vector<double>> coords{xs}, kn{knots}; std::vector<uint32_t> ord{order}, po{1}; std::vector<double> sm{0.1};
  if (!valid) w.pop_back();
  t.fit(data, w, coords, ord, kn, sm, po, TT::no_monodim, false);
}
// executes one operation; returns true if it threw
static bool real_step(Real& r, const Op& op, std::string& msg) {
  TT& s = *r.o[op.obj]; TT& t = *r.o[1 - op.obj]; Fix& F = fix();
  try {
    switch (op.kind) {
      case O_READ_G1: { auto b = F.g1; s.read_fits_mem(b.data(), b.size()); break; }
      case O_READ_G2: { auto b = F.g2; s.read_fits_mem(b.data(), b.size()); break; }
      case O_READ_CORRUPT: { auto b = F.corrupt; s.read_fits_mem(b.data(), b.size()); break; }
      case O_READ_MISSING: s.read_fits("no-such-file.fits"); break;
      case O_FIT: do_fit(s, true); break;
      case O_FIT_INVALID: do_fit(s, false); break;
      case O_WKEY1: s.write_key("K1", std::string("v")); break;
      case O_WKEY2: s.write_key("K2", 42); break;
      case O_WKEY_BAD: s.write_key("ORDER9", std::string("x")); break;
      case O_RKEY1: s.remove_key("K1"); break;
      case O_CONVOLVE: { double k[2] = {-0.25, 0.25}; s.convolve(0, k, 2); break; }
      case O_CONVOLVE_BAD_DIM: { double k[2] = {-0.25, 0.25}; s.convolve(s.get_ndim(), k, 2); break; }
      case O_CONVOLVE_ONE_KNOT: { double k[1] = {0.0}; s.convolve(0, k, 1); break; }
      case O_PERMUTE: { std::vector<size_t> p; for (uint32_t i = s.get_ndim(); i-- > 0;) p.push_back(i); s.permuteDimensions(p); break; }
      case O_PERMUTE_BAD: { std::vector<size_t> p(s.get_ndim(), 0); p.push_back(0); s.permuteDimensions(p); break; }
      case O_MOVE_CONSTRUCT: { r.o[1 - op.obj].reset(); r.o[1 - op.obj].reset(new TT(std::move(s))); break; }
      case O_MOVE_ASSIGN: s = std::move(t); break;
      case O_SELF_ASSIGN: { TT& alias = s; s = std::move(alias); break; }
      case O_COMPARE: { bool e = (s == t), n = (s != t); if (e == n) throw std::logic_error("== and != agree"); g_sink = e; break; }
      case O_WRITE_MEM: { auto b = s.write_fits_mem(); TT u; u.read_fits_mem(b.first, b.second); bool same = (u == s) && digest(u) == digest(s); free(b.first); if (!same) throw std::logic_error("HARNESS: re-read of write_fits_mem differs"); break; }
      case O_WRITE_BADPATH: s.write_fits("no/such/directory/x.fits"); break;
      case O_EVAL: { std::vector<double> x(s.get_ndim()); std::vector<int> c(s.get_ndim()); for (uint32_t i = 0; i < s.get_ndim(); i++) x[i] = s.get_knot(i, s.get_order(i)) + 0.3 * (s.get_knot(i, s.get_order(i) + 1) - s.get_knot(i, s.get_order(i))); if (s.searchcenters(x.data(), c.data())) { g_sink = s.ndsplineeval(x.data(), c.data(), 0); g_sink = s.ndsplineeval(x.data(), c.data(), 1); std::vector<double> g(s.get_ndim() + 1); s.ndsplineeval_gradient(x.data(), c.data(), g.data()); } g_sink = s(x.data()); break; }
      case O_RECREATE: r.o[op.obj].reset(); r.o[op.obj].reset(fresh(op.obj)); break;
    }
  } catch (std::bad_alloc&) { msg = "std::bad_alloc"; return true; }
  catch (std::exception& e) { msg = e.what(); return true; }
  return false;
}

static std::vector<Op> g_ops;
static std::map<std::string, std::string> g_digest_of;   // symbolic object state -> digest of the real object (route independence)

// compare the real world with the model after a step; returns false if something is wrong
static void compare(Real& r, const World& w, const std::string& where, const std::string& okey) {
  for (int i = 0; i < 2; i++) {
    TT& t = *r.o[i]; const Sym& s = w.o[i]; std::string why;
    if (!structurally_sound(t, why)) { H->violation("object-structurally-unsound:" + okey, where + " object " + (i ? "b" : "a") + ": " + why); continue; }
    if ((t.get_ndim() != 0) != s.populated) { H->violation(std::string(s.populated ? "object-unexpectedly-empty:" : "object-unexpectedly-populated:") + okey, where + " object " + (i ? "b" : "a") + " model " + s.str()); continue; }
    if (t.get_naux_values() != s.aux.size()) { H->violation("aux-store-differs-from-model:" + okey, where + vf::fmt(" object %s has %zu keys, model %zu (%s)", i ? "b" : "a", t.get_naux_values(), s.aux.size(), s.str().c_str())); continue; }
    bool auxok = true; for (size_t k = 0; k < s.aux.size(); k++) { const char* v = t.get_aux_value(s.aux[k].first.c_str()); std::string vs = v ? v : "<absent>"; while (!vs.empty() && vs.back() == ' ') vs.pop_back(); if (vs != s.aux[k].second || s.aux[k].first != t.get_aux_key(k)) auxok = false; }
    if (!auxok) { H->violation("aux-store-differs-from-model:" + okey, where + " model " + s.str()); continue; }
    std::string d = digest(t); auto it = g_digest_of.find(s.str());
    if (it == g_digest_of.end()) g_digest_of[s.str()] = d; else if (it->second != d) H->violation("same-abstract-state-different-contents:" + okey, where + " state " + s.str());
  }
  // comparison operators agree with the model
  bool eq = (*r.o[0] == *r.o[1]); bool meq = w.o[0].core() == w.o[1].core();
  if (eq != meq) H->violation("equality-differs-from-model:" + okey, where + " model " + w.str());
}

static void check_ledger(const std::string& where, const std::string& okey) {
  ta::Ledger& L = ta::ledger();
  for (auto& e : L.errors) { H->violation("allocator-misuse:" + e.substr(0, e.find(':')) + ":" + okey, where + " " + e); break; }
  L.errors.clear();
}

// replay a history on fresh objects (model and real), returns false if the harness could not reproduce it
static bool replay(const std::vector<int>& path, Real& r, World& w) {
  for (int oi : path) { std::string m; World before = w; int ex = model_step(w, g_ops[oi]); bool th = real_step(r, g_ops[oi], m); if (ex == 1 && th) { /* failed operations leave the model unchanged (or empty for reads) */ if (g_ops[oi].kind != O_READ_CORRUPT && g_ops[oi].kind != O_READ_MISSING) w = before; } else if ((ex == 1) != th) return false; }
  return true;
}

static void suffix_battery(Real& r, const std::string& where, const std::string& okey) {   // whatever state the objects are in, they must be usable and destructible
  for (int i = 0; i < 2; i++) {
    TT& t = *r.o[i]; std::string why;
    if (!structurally_sound(t, why)) { H->violation("object-structurally-unsound-after-failure:" + okey, where + ": " + why); r.o[i].release(); r.o[i].reset(fresh(i)); continue; }
    std::string m; if (t.get_ndim()) { real_step(r, Op{O_EVAL, i}, m); real_step(r, Op{O_WRITE_MEM, i}, m); if (m.find("HARNESS") != std::string::npos) H->violation("object-does-not-reserialise-after-failure:" + okey, where); }
  }
  std::string m; real_step(r, Op{O_MOVE_CONSTRUCT, 0}, m); real_step(r, Op{O_COMPARE, 0}, m);
  r.o[0].reset(); r.o[1].reset();
  check_ledger(where, okey);
  if (ta::ledger().live_bytes != 0) H->violation("storage-leaked:" + okey, where + vf::fmt(" %zu bytes in %zu blocks still live after destroying every object", ta::ledger().live_bytes, ta::ledger().live.size()));
}

static void explore(int maxdepth, bool faults) {
  H->hint("history-bfs");
  g_ops.clear(); for (int obj = 0; obj < 2; obj++) for (int k = 0; k < O_NKINDS; k++) g_ops.push_back({k, obj});
  std::map<std::string, std::vector<int>> path_of; std::deque<std::string> frontier;
  World w0; path_of[w0.str()] = {}; frontier.push_back(w0.str());
  uint64_t transitions = 0, fault_runs = 0; size_t deepest = 0;
  while (!frontier.empty()) {
    std::string cs = frontier.front(); frontier.pop_front(); std::vector<int> path = path_of[cs];
    for (size_t oi = 0; oi < g_ops.size(); oi++) {
      const Op& op = g_ops[oi];
      { World probe; Real dummy; (void)dummy; }
      ta::ledger().reset();
      Real r; World w; if (!replay(path, r, w)) { H->violation("harness:history-not-reproducible", cs); continue; }
      if (w.str() != cs) { H->violation("harness:history-reaches-another-state", cs + " vs " + w.str()); continue; }
      World before = w; int ex = model_step(w, op); if (ex < 0) continue;
      std::string where = "history {"; for (int pi : path) where += g_ops[pi].label() + "; "; where += "} then " + op.label() + "   [state " + cs + "]";
      std::string okey = OPN[op.kind];
      H->hint(okey);
      std::string msg; bool th = real_step(r, op, msg); transitions++;
      H->cls(okey + (th ? "|threw" : "|ok") + "|" + (before.o[op.obj].populated ? "populated" : "empty"));
      if (msg.find("HARNESS") != std::string::npos) H->violation("written-table-differs-when-read-back:" + okey, where);
      else if (th != (ex == 1)) H->violation(std::string(ex == 1 ? "operation-that-must-fail-succeeded:" : "operation-failed-unexpectedly:") + okey, where + (th ? " (" + msg + ")" : ""));
      if (ex == 1 && op.kind != O_READ_CORRUPT && op.kind != O_READ_MISSING) w = before;
      if (th == (ex == 1)) compare(r, w, where, okey);
      check_ledger(where, okey);
      std::string ns = w.str();
      // close the path: destroy everything, the ledger must balance
      { Real& rr = r; rr.o[0].reset(); rr.o[1].reset(); check_ledger(where, okey); if (ta::ledger().live_bytes != 0) H->violation("storage-leaked:" + okey, where + vf::fmt(" %zu bytes in %zu blocks still live after destroying every object", ta::ledger().live_bytes, ta::ledger().live.size())); }
      if (!path_of.count(ns) && path.size() < (size_t)maxdepth) { auto p = path; p.push_back(oi); path_of[ns] = p; frontier.push_back(ns); deepest = std::max(deepest, p.size()); }
      // ---- allocation faults: the k-th allocation made by this operation fails, for every k
      if (faults && ex == 0) for (long k = 0; k < 64; k++) {
        ta::ledger().reset(); Real rf; World wf; if (!replay(path, rf, wf)) break;
        std::string pre0 = digest(*rf.o[0]), pre1 = digest(*rf.o[1]);
        ta::ledger().arm(k); std::string m2; bool th2 = real_step(rf, op, m2); bool fired = ta::ledger().fired; ta::ledger().disarm();
        if (!fired) break;
        fault_runs++; H->count("evaluations");
        std::string fwhere = where + vf::fmt(" with allocation #%ld of the operation failing", k);
        H->cls(okey + "|allocfail|" + (th2 ? "reported" : "absorbed"));
        if (!th2) { /* the operation absorbed the failure: it must have completed or left things as they were */ }
        for (int i = 0; i < 2; i++) { TT& t = *rf.o[i]; std::string why; if (!structurally_sound(t, why)) { H->violation("object-structurally-unsound-after-allocation-failure:" + okey, fwhere + ": " + why); continue; }
          if (th2 && i == op.obj && t.get_ndim() != 0 && digest(t) != (i ? pre1 : pre0)) H->violation("failed-operation-left-object-neither-unchanged-nor-empty:" + okey, fwhere);
          if (th2 && i != op.obj && op.kind != O_MOVE_CONSTRUCT && op.kind != O_MOVE_ASSIGN && digest(t) != (i ? pre1 : pre0)) H->violation("failed-operation-changed-the-other-object:" + okey, fwhere); }
        suffix_battery(rf, fwhere, okey + ":allocation-failure");
      }
    }
  }
  H->count("states", path_of.size()); H->count("transitions", transitions); H->count("traces_validated_against_impl", transitions + fault_runs); H->count("allocation_fault_runs", fault_runs);
  H->note(vf::fmt("states=%zu transitions=%llu allocation-fault runs=%llu depth bound=%d deepest shortest history=%zu%s", path_of.size(), (unsigned long long)transitions, (unsigned long long)fault_runs, maxdepth, deepest, deepest < (size_t)maxdepth ? " (FIXPOINT: histories of every length are covered)" : ""));
  std::string sm = "{\"operations\":["; for (int k = 0; k < O_NKINDS; k++) sm += std::string(k ? "," : "") + "\"" + OPN[k] + "\""; H->sample(sm + "],\"objects\":2}");
}

int main(int argc, char** argv) {
  vf::Harness h("C20", argc, argv);
  H = &h;
  h.meta("level", "model_checking");
  h.meta("rule", "breadth-first search over operation histories on two real splinetable<TrackAlloc> objects: read_fits_mem of two valid files and a corrupt one, read_fits of a missing file, valid and invalid fit, write_key (two keys, one reserved), remove_key, convolve (<=2 per object), convolve of a dimension that does not exist (also on an empty object) and with a one-knot kernel, valid and invalid permutation (also on an empty object: the empty permutation is a no-op, anything else is rejected), move construction, move assignment, self assignment, == / !=, write_fits_mem, write_fits to an unwritable path, evaluation, destroy+recreate; state = pair of abstract object states (EMPTY or base table x convolutions x permutation flag, plus the ordered key list), deduplicated, explored to a depth bound with every transition replaying its shortest history on fresh objects; a symbolic reference model predicts for every step whether it must throw and the resulting abstract state; after every step: structural soundness, populated/empty, key store, equality operators, route independence of the contents of an abstract state, allocator ledger (the two objects use different arenas of a stateful allocator; every block returned once, with its size and type, through an allocator instance of the arena it came from) and, after destroying both objects, an empty ledger; for every non-failing transition additionally the k-th allocation of the operation is made to fail for every k: the object must be unchanged or empty, the other object untouched, and a suffix battery (evaluate, re-serialise, move, compare, destroy) must be clean with a balanced ledger");
  h.meta("assumption", "move assignment is implemented as a swap; the model accepts that the source then holds the target's former contents (nothing is leaked) rather than being empty");
  h.meta("assumption", "allocation faults are injected through the allocator template parameter only (scratch memory obtained with new/malloc inside the library is not failed)");
  h.meta("require_states", "50"); h.meta("require_allocation_fault_runs", "200");
  h.meta("deadline_quick", "900"); h.meta("deadline_thorough", "3000");
  h.timeout_s = 2400;
  bool T = h.thorough;
  int depth = T ? 5 : 3; bool faults = true; if (getenv("C20_DEPTH")) depth = atoi(getenv("C20_DEPTH")); if (getenv("C20_NOFAULT")) faults = false;
  // thorough adds a second search WITHOUT the per-transition allocation-fault enumeration that runs to the FIXPOINT of the
  // abstract state graph (11 025 states, longest shortest history 16): operation histories of every length
  h.add_space("bfs", T ? 2 : 1, [depth, faults](uint64_t i) { if (i == 0) explore(depth, faults); else explore(64, false); });
  return h.main();
}
