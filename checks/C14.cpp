// C14 — convolution produces the true convolution with the unit-area kernel spline.
#include "engine/vf.hpp"
#include "engine/tablegen.hpp"
#include "engine/evalspace.hpp"
#include "ref/bspline_ref.hpp"
#include <photospline/cinter/splinetable.h>
using namespace es;
static vf::Harness* H;
using ref::ld;

// 12-point Gauss-Legendre nodes/weights on [-1,1] (exact for degree <= 23)
static const long double GLX[6] = {0.1252334085114689154724414L, 0.3678314989981801937526915L, 0.5873179542866174472967024L, 0.7699026741943046870368938L, 0.9041172563704748566784659L, 0.9815606342467192506905491L};
static const long double GLW[6] = {0.2491470458134027850005624L, 0.2334925365383548087608499L, 0.2031674267230659217490645L, 0.1600783285433462263346525L, 0.1069393259953184309602547L, 0.0471753363865118271946160L};

// reference: (f*M)(x) along dimension `dim`, f = pre-convolution table, M = unit-area B-spline on the kernel knots
static ld conv_ref(const tg::TableSpec& s, int dim, const std::vector<double>& kern, const std::vector<double>& x, ld* mag) {
  size_t n = kern.size(); auto views = s.views();
  ld y0 = kern.front(), y1 = kern.back();
  std::vector<ld> bp(kern.begin(), kern.end());
  for (double k : s.dims[dim].knots) { ld t = (ld)x[dim] - (ld)k; if (t > y0 && t < y1) bp.push_back(t); }
  std::sort(bp.begin(), bp.end());
  ld total = 0, tmag = 0; std::vector<double> xx = x;
  for (size_t i = 0; i + 1 < bp.size(); i++) {
    ld a = bp[i], b = bp[i + 1]; if (!(b > a)) continue;
    ld h = (b - a) / 2, c = (a + b) / 2;
    for (int g = 0; g < 12; g++) {
      ld node = g < 6 ? -GLX[5 - g] : GLX[g - 6]; ld w = g < 6 ? GLW[5 - g] : GLW[g - 6];
      ld t = c + h * node;
      ld M = ref::bspl(kern.data(), 0, (int)n - 2, (double)t, ref::RIGHT_CONT) * (ld)(n - 1) / (y1 - y0);
      xx[dim] = (double)((ld)x[dim] - t);
      // f at the shifted point: plain half-open evaluation (measure-zero differences do not matter under the integral)
      ld f = 0, fm = 0;
      { std::vector<std::vector<ld>> B(views.size()); bool zero = false;
        for (size_t d = 0; d < views.size() && !zero; d++) { uint64_t na = views[d].naxes(); B[d].resize(na); bool any = false; for (uint64_t j = 0; j < na; j++) { B[d][j] = ref::bspl(views[d].knots, (int)j, (int)views[d].order, xx[d], d == (size_t)dim ? ref::RIGHT_CONT : ref::side_for(views[d].knots, views[d].nknots, views[d].order, xx[d])); if (B[d][j] != 0) any = true; } if (!any) zero = true; }
        if (!zero) { std::vector<uint64_t> stride(views.size()); stride.back() = 1; for (size_t d = views.size() - 1; d > 0; d--) stride[d - 1] = stride[d] * views[d].naxes();
          std::vector<uint64_t> it(views.size(), 0);
          while (true) { ld p = 1; uint64_t pos = 0; for (size_t d = 0; d < views.size(); d++) { p *= B[d][it[d]]; pos += it[d] * stride[d]; } if (p != 0) { f += p * (ld)s.coeffs[pos]; fm += fabsl(p * (ld)s.coeffs[pos]); } size_t d = views.size(); bool done = false; while (d-- > 0) { if (++it[d] < views[d].naxes()) break; it[d] = 0; if (d == 0) done = true; } if (done) break; } } }
      total += w * h * f * M; tmag += w * h * fm * fabsl(M);
    }
  }
  if (mag) *mag = tmag;
  return total;
}

static std::vector<double> kernel(int kind, int n, double smallest_gap, double span) {
  std::vector<double> k(n);
  switch (kind) {
    case 0: for (int i = 0; i < n; i++) k[i] = -0.5 + (double)i / (n - 1); break;                         // symmetric, width 1
    case 1: for (int i = 0; i < n; i++) k[i] = 0.25 * i * (1 + 0.3 * (i % 2)); break;                       // one-sided positive, irregular
    case 2: for (int i = 0; i < n; i++) k[i] = -2.0 + 0.4 * i + 0.05 * i * i; break;                        // one-sided negative (support below 0)
    case 3: for (int i = 0; i < n; i++) k[i] = -0.2 * smallest_gap + 0.4 * smallest_gap * i / (n - 1); break; // narrower than the smallest knot interval
    default: for (int i = 0; i < n; i++) k[i] = -0.6 * span + 1.2 * span * i / (n - 1) + 0.01 * i;           // wider than the whole support
  }
  return k;
}
static const char* KN[] = {"symmetric", "positive-irregular", "negative", "narrow", "wide"};

static bool g_thorough = false;
static void run_case(int d, uint64_t idx) {
  // order of the convolved dimension 0..5, knot pattern, kernel size 2..6, kernel kind, coefficient kind, convolved dimension index
  std::vector<uint64_t> v;
  if (d >= 3 && !g_thorough) {   // quick tier, 3 and 4 dimensions: orders {0,2,5} x 2 knot patterns x kernel sizes {2,4,6} x 2 kernel kinds x seeded coefficients x every dimension
    vf::Radix Rq{3, 2, 3, 2, (uint64_t)d}; auto q = Rq.decode(idx);
    static const uint64_t OQ[3] = {0, 2, 5}, NQ[3] = {0, 2, 4};
    v = {OQ[q[0]], q[1], NQ[q[2]], q[3], 2, q[4]};
  } else { vf::Radix R{6, 5, 5, 5, 3, (uint64_t)d}; v = R.decode(idx); }
  uint32_t order = v[0]; static const int KP[5] = {tg::K_UNIFORM, tg::K_IRREGULAR, tg::K_UNIFORM, tg::K_IRREGULAR, tg::K_UNIFORM}; /* strictly increasing knots in the convolved dimension: the divided differences are not defined for repeated knots */ int kp = KP[v[1]]; int nk = 2 + v[2]; int kk = v[3]; int ck = v[4]; int dim = v[5];
  tg::TableSpec s;
  for (int i = 0; i < d; i++) { uint32_t o = i == dim ? order : (uint32_t)((i + 1) % 4); s.dims.push_back({o, tg::make_knots(i == dim ? kp : (i % 2 ? tg::K_DOUBLE : tg::K_UNIFORM), o, 2 * o + 2 + 2 + i, 0.5 * i)}); }
  if (v[1] == 2) for (auto& kv : s.dims[dim].knots) kv = 50.0 + 0.37 * kv;
  // the convolution does not depend on the unit of the axis: the same table with the axis in units 1e-8 (nanoseconds written in
  // seconds) and 1e6 times larger; the kernel is scaled by the same unit
  double unit = v[1] == 3 ? 1e-8 : (v[1] == 4 ? 1e6 : 1.0);   // applied to the knots AND to the kernel after the kernel has been chosen
  uint64_t nc = s.ncoeffs();
  if (ck == 0) s.coeffs.assign(nc, 1.f); else if (ck == 1) { s.coeffs.assign(nc, 0.f); s.coeffs[(idx * 7) % nc] = 1.f; } else s.coeffs = tg::make_coeffs(1, nc, H->seed, idx);
  const auto& K0 = s.dims[dim].knots; double gap = 1e300; for (size_t i = 1; i < K0.size(); i++) if (K0[i] > K0[i - 1]) gap = std::min(gap, K0[i] - K0[i - 1]);
  std::vector<double> kern = kernel(kk, nk, gap, K0.back() - K0.front());
  if (unit != 1.0) { for (auto& kv : s.dims[dim].knots) kv = kv * unit - (v[1] == 4 ? 3e6 : 0.0); for (auto& kv : kern) kv *= unit; }
  double maxgap = 0, kmin = 1e300; for (size_t i = 1; i < K0.size(); i++) maxgap = std::max(maxgap, K0[i] - K0[i - 1]); for (size_t i = 1; i < kern.size(); i++) kmin = std::min(kmin, kern[i] - kern[i - 1]);
  // iterated divided differences over >= 4 kernel knots whose spacing is >= 100 times finer than the table's knot spacing: its own failure class
  bool illcond = nk >= 4 && maxgap / kmin >= 100;   // (nk >= 5 until the axis-unit patterns showed the same cancellation, 8e-4 relative, with 4 kernel knots on an order-4 dimension)
  std::string key = vf::fmt("%sorder=%u:kernel-knots=%d", illcond ? "fine-kernel-on-coarse-knots:" : "", order, nk);
  std::string where = vf::fmt("[d=%d dim=%d order=%u knots=%s kernel=%s/%d coeffs=%d]", d, dim, order, v[1] == 2 ? "uniform*0.37+50" : v[1] == 3 ? "irregular*1e-8" : v[1] == 4 ? "uniform*1e6-3e6" : tg::pattern_name(kp), KN[kk], nk, ck);
  H->hint(where);
  Table t; tg::build(t, s);
  bool viaC = (idx % 5 == 0);
  try { if (viaC) { struct splinetable st; st.data = &t; if (splinetable_convolve(&st, dim, kern.data(), kern.size()) != 0) { H->violation("C-convolve-failed:" + key, where); return; } } else t.convolve(dim, kern.data(), kern.size()); }
  catch (std::exception& e) { H->violation("convolve-threw:" + key, where + " " + e.what()); return; }
  // ---- post-conditions
  std::vector<double> sums; for (double a : K0) for (double b : kern) sums.push_back(a + b); std::sort(sums.begin(), sums.end());
  if (t.get_ndim() != (uint32_t)d) { H->violation("postcondition:ndim:" + key, where); return; }
  for (int i = 0; i < d; i++) {
    if (i == dim) {
      if (t.get_order(i) != order + nk - 1) { H->violation("postcondition:order:" + key, where + vf::fmt(" got %u", t.get_order(i))); return; }
      if (t.get_nknots(i) != sums.size()) { H->violation("postcondition:knot-count:" + key, where); return; }
      for (size_t j = 0; j < sums.size(); j++) if (t.get_knot(i, j) != sums[j]) { H->violation("postcondition:knots-not-sorted-pairwise-sums:" + key, where); return; }
    } else {
      if (t.get_order(i) != s.dims[i].order || t.get_nknots(i) != s.dims[i].knots.size() || memcmp(t.get_knots(i), s.dims[i].knots.data(), 8 * s.dims[i].knots.size())) { H->violation("postcondition:other-dimension-changed:" + key, where); return; }
    }
    if (t.get_ncoeffs(i) != t.get_nknots(i) - t.get_order(i) - 1 || t.get_ncoeffs(i) < (uint64_t)t.get_order(i) + 1) { H->violation("postcondition:ill-formed:" + key, where); return; }
  }
  { uint64_t st = 1; for (int i = d - 1; i >= 0; i--) { if (t.get_stride(i) != st) { H->violation("postcondition:strides:" + key, where); return; } st *= t.get_ncoeffs(i); } }
  // ---- function oracle at interval-interior points of the new knot vector (interior and both margins)
  tg::TableSpec sn; for (int i = 0; i < d; i++) sn.dims.push_back({t.get_order(i), std::vector<double>(t.get_knots(i), t.get_knots(i) + t.get_nknots(i))});
  sn.coeffs.assign(t.get_coefficients(), t.get_coefficients() + t.get_ncoeffs());
  auto nviews = sn.views();
  std::vector<double> pts; { const auto& k = sn.dims[dim].knots; size_t cnt = 0; for (size_t j = 0; j + 1 < k.size(); j++) if (k[j + 1] - k[j] > 1e-9 * (k.back() - k.front())) { pts.push_back(k[j] + 0.5 * (k[j + 1] - k[j])); if (cnt++ % 3 == 0 && d == 1) pts.push_back(k[j] + (k[j + 1] - k[j]) / 7); } }
  ld cmax = 0; for (float cf : s.coeffs) cmax = std::max(cmax, fabsl((ld)cf));
  std::vector<double> x(d); for (int i = 0; i < d; i++) { const auto& D = s.dims[i]; x[i] = D.knots[D.order] + 0.37 * (D.knots[D.order + 1] - D.knots[D.order]); }
  for (double p : pts) {
    x[dim] = p; std::vector<int> c(d);
    if (!t.searchcenters(x.data(), c.data())) continue;
    double got = t.ndsplineeval<double>(x.data(), c.data(), 0);
    ld mag = 0; ld want = conv_ref(s, dim, kern, x, &mag);
    ref::EvalResult rn = ref::full_eval(nviews, sn.coeffs.data(), x.data(), nullptr);
    // single-precision rounding relative to the terms summed at x, plus single-precision rounding relative to the scale of the
    // source coefficients: the transfer matrix is computed by iterated divided differences in double precision and stored in float,
    // so a coefficient that is tiny compared with its neighbours (far margins) carries an absolute, not a relative, error
    ld tol = 64 * 1.2e-7L * (rn.mag + mag) + 8 * 1.2e-7L * cmax + 1e-30L;
    H->count("evaluations");
    const auto& kn = sn.dims[dim].knots; const char* region = p < kn[sn.dims[dim].order] ? "left-margin" : (p >= kn[sn.dims[dim].naxes()] ? "right-margin" : "interior");
    H->cls(key + "|" + region + "|d=" + std::to_string(d));
    if (!(fabsl((ld)got - want) <= tol)) {
      bool negated = fabsl((ld)got + want) <= tol && fabsl(want) > tol;
      H->violation(std::string(negated ? "convolution-has-the-wrong-sign:" : (got == 0 && fabsl(want) > tol ? "convolution-is-identically-zero:" : "not-the-convolution:")) + key, where + vf::fmt(" x=%s table %.9g integral %.9g (tolerance %.3g)", vf::vecstr(x).c_str(), got, (double)want, (double)tol));
      break;
    }
  }
  if (H->want_sample()) H->sample("{\"case\":\"" + where + "\",\"kernel\":" + vf::vecstr(kern) + "}");
}

int main(int argc, char** argv) {
  vf::Harness h("C14", argc, argv);
  H = &h;
  h.meta("level", "exploration");
  h.meta("rule", "complete walk: d=1..4 x order 0..5 of the convolved dimension x {uniform, irregular, uniform scaled by 0.37 at offset 50, irregular in units of 1e-8, uniform in units of 1e6} strictly increasing knots (repeated knots only in the other dimensions) x kernels of 2..6 knots x {symmetric, one-sided positive irregular, one-sided negative, narrower than the smallest knot interval, wider than the whole support} x {all ones, unit impulse, seeded} coefficients x every dimension index (C++ and C entry); post-conditions (order += n-1, knots = sorted pairwise sums, other dimensions untouched, well-formed, strides) and the function oracle: the convolved table evaluated at midpoints and 1/7 points of every non-empty interval of the new knot vector (interior and both margins) against the integral of f(x-t) M(t) dt with M the unit-area B-spline on the kernel knots, by 12-point Gauss-Legendre quadrature on every sub-interval between breakpoints in long double; distinct = (order, kernel size, region, dimension count)");
  h.meta("assumption", "reference: Gauss-Legendre quadrature of the long-double Cox-de Boor reference; tolerance 64 eps_float times the magnitude of the summed terms");
  h.meta("deadline_quick", "900"); h.meta("deadline_thorough", "2400");
  h.timeout_s = 120;
  g_thorough = h.thorough;
  for (int d = 1; d <= 4; d++) h.add_space(vf::fmt("d%d", d), (d >= 3 && !h.thorough) ? 3ull * 2 * 3 * 2 * d : 6ull * 5 * 5 * 5 * 3 * d, [d](uint64_t i) { run_case(d, i); });
  return h.main();
}
