// monoproblems.hpp — the structural alphabet of monotonic fit problems shared by C10 (property-level oracles) and
// C11 (the non-negative least-squares systems these fits hand to the solver).
#pragma once
#include "engine/vf.hpp"
#include "engine/tablegen.hpp"
#include "ref/fit_ref.hpp"
namespace mp {
inline std::vector<double> pts(const std::vector<double>& k, uint32_t order, size_t n) { double a = k[order], b = k[k.size() - order - 1]; std::vector<double> x; for (size_t i = 0; i < n; i++) x.push_back(a + (b - a) * (i + 0.5) / n); return x; }

inline double pattern(int kind, double u, uint64_t salt, long seed) {   // u in [0,1] along the monotonic axis
  switch (kind) {
    case 0: return 2 * u + 0.3; case 1: return 3 - 2.5 * u; case 2: return 1.25; case 3: return ((int)(u * 12) % 2) ? 2.0 : -1.0;
    case 4: return (u > 0.45 && u < 0.55) ? 5.0 : 0.1; case 5: return u * u + 1.5 * (vf::u01(seed, salt) - 0.5); case 6: return -1.0 - u; default: return 0.0;
  }
}

static const char* DN[] = {"increasing", "decreasing", "constant", "oscillating", "spike", "noisy", "all-negative", "all-zero"};
static const uint64_t ND_SIZE = 3ull * 3 * 4 * 8 * 2 * 3 * 2 * 2;
struct NdCase { bool valid = false; fitref::Problem P; uint32_t mono = 0; int nthreads = 1; int d = 0, dk = 0; std::string where; };
inline NdCase nd_case(uint64_t idx, long seed) {
  NdCase C;
  static const vf::Radix R{3, 3, 4, 8, 2, 3, 2, 2};
  auto v = R.decode(idx);
  int d = 1 + v[0]; if (v[1] >= (uint64_t)d) return C;   // every choice of monotonic dimension
  uint32_t mono = v[1];
  static const uint32_t OS[4][3] = {{1, 2, 1}, {2, 1, 3}, {3, 2, 2}, {4, 1, 1}}; int dk = v[3], wk = v[4]; static const double LAM[] = {1e-6, 1e-2, 10}; double lam = LAM[v[5]]; bool sparse = v[6]; int nthreads = v[7] ? 3 : 1;
  fitref::Problem& P = C.P;
  for (int i = 0; i < d; i++) { uint32_t o = OS[v[2]][i]; P.order.push_back(o); size_t nb = o + (d == 1 ? 5 : (d == 2 ? 3 : 2)); P.knots.push_back(tg::make_knots(i % 2 ? tg::K_IRREGULAR : tg::K_UNIFORM, o, nb + o + 1, 0.3 * i)); P.coords.push_back(pts(P.knots[i], o, nb * 2 + 1)); P.smooth.push_back(lam); P.porder.push_back(1); }
  std::vector<unsigned> ix(d, 0); uint64_t rno = 0;
  while (true) {
    unsigned s = 0; for (auto q : ix) s += q;
    if (!(sparse && s % 4 == 0)) { P.idx.push_back(ix); double u = (ix[mono] + 0.5) / P.coords[mono].size(); double oth = 0; for (int i = 0; i < d; i++) if ((uint32_t)i != mono) oth += 0.2 * ix[i]; P.y.push_back(pattern(dk, u, idx * 1009 + rno, seed) * (1 + 0.1 * oth)); P.w.push_back(wk ? 0.2 + 2 * vf::u01(seed + 3, idx * 31 + rno) : 1.0); }
    rno++;
    int k = d; bool done = false; while (k-- > 0) { if (++ix[k] < P.coords[k].size()) break; ix[k] = 0; if (k == 0) done = true; }
    if (done) break;
  }
  C.valid = true; C.mono = mono; C.nthreads = nthreads; C.d = d; C.dk = dk;
  C.where = vf::fmt("[d=%d monodim=%u orders=%s data=%s weights=%d lambda=%g sparse=%d threads=%d]", d, mono, vf::vecstr(P.order).c_str(), DN[dk], wk, lam, (int)sparse, nthreads);
  return C;
}
}  // namespace mp
