// C08 — interrupted or failing writes never pass as success or load as another table.
// The real write_fits / cfitsio buffer layer runs on an in-memory disk (engine/vfs_driver.c).
#include "engine/vf.hpp"
#include "engine/tablegen.hpp"
#include "engine/evalspace.hpp"
#include "engine/vfs_driver.h"
#include "ref/fits_ref.hpp"
#include <photospline/cinter/splinetable.h>
#include <fstream>
#include <sys/resource.h>
#include <sys/wait.h>
#include <sys/stat.h>
using namespace es;
static vf::Harness* H;

struct Shape { std::string name; std::vector<uint64_t> naxes; std::vector<uint32_t> order; int naux; };
static const int NBASE = 6;    // shapes that also get crash-byte and conformance spaces
// The primary header holds 36 cards per 2880-byte block. Whether a card written late lands in the last free slot, needs a new
// block, or (written after the data) forces cfitsio to shift data blocks depends on the fill level of the header, i.e. on the
// number of auxiliary keys modulo 36: the "fill" shapes sweep EVERY fill level for a table larger than cfitsio's buffer pool.
static std::vector<Shape> make_shapes() {
  std::vector<Shape> S = {
    {"1d-6blocks", {40}, {2}, 0},
    {"2d-9blocks-40aux", {9, 7}, {2, 3}, 40},
    {"3d-11blocks", {12, 11, 10}, {1, 2, 3}, 3},
    {"4d-40blocks", {8, 9, 10, 26}, {2, 2, 1, 0}, 0},
    {"2d-63blocks", {200, 201}, {2, 3}, 1},
    {"5d-300blocks", {8, 9, 10, 11, 26}, {2, 1, 2, 0, 1}, 40},
  };
  for (int k = 1; k <= 36; k++) S.push_back({vf::fmt("4d-66blocks-fill%02d", k), {8, 9, 10, 46}, {2, 2, 1, 0}, k});
  // cfitsio only touches the file inside a call that moves >= 3 blocks at once (direct I/O) or evicts buffers: a knot vector of
  // >= 1080 doubles makes that happen inside the write of KNOTSn itself - in the first, a middle and the LAST dimension (after
  // the last knot vector only EXTENTS and the close follow, so a status lost there is not picked up by a later KNOTSn call)
  S.push_back({"1d-1500-long-knots", {1500}, {2}, 2});
  S.push_back({"2d-6x1200-long-last-knots", {6, 1200}, {2, 1}, 0});
  S.push_back({"2d-1200x6-long-first-knots", {1200, 6}, {1, 2}, 0});
  S.push_back({"3d-5x1200x4-long-middle-knots", {5, 1200, 4}, {1, 2, 0}, 1});
  return S;
}
static const std::vector<Shape> SHAPES = make_shapes();
static const int NSHAPES = NBASE;
#define SN(si) (SHAPES[si].name.c_str())

struct Ctx {
  std::unique_ptr<Table> t;
  std::vector<vfs_op> log; std::vector<std::vector<unsigned char>> data;  // clean-run log
  fr::Bytes clean;
};
static Ctx& ctx(int si) {
  static std::map<int, Ctx> cache;
  auto it = cache.find(si);
  if (it != cache.end()) return it->second;
  const Shape& S = SHAPES[si];
  tg::TableSpec s;
  for (size_t i = 0; i < S.naxes.size(); i++) s.dims.push_back({S.order[i], tg::make_knots(i % 2 ? tg::K_IRREGULAR : tg::K_UNIFORM, S.order[i], S.naxes[i] + S.order[i] + 1, 0.5 * i)});
  s.coeffs = tg::make_coeffs(1, s.ncoeffs(), 7, si);
  for (auto& c : s.coeffs) if (c == 0.f) c = 0.25f;   // no zero coefficients: a zero-filled gap must be distinguishable
  for (size_t i = 0; i < S.naxes.size(); i++) s.periods.push_back(i);
  Ctx c; c.t.reset(new Table); tg::build(*c.t, s);
  for (int i = 0; i < S.naux; i++) c.t->write_key(vf::fmt("AUXKEY%d", i).c_str(), std::string("value ") + std::to_string(i));
  vfs_register(); vfs_reset();
  c.t->write_fits("vfs://t");
  for (int i = 0; i < vfs_nops(); i++) { c.log.push_back(*vfs_get_op(i)); if (vfs_get_op(i)->kind == VFS_WRITE) c.data.push_back(std::vector<unsigned char>(vfs_op_data(i), vfs_op_data(i) + vfs_get_op(i)->len)); else c.data.push_back({}); }
  const unsigned char* p; size_t n = vfs_image(&p); c.clean.assign(p, p + n);
  return cache.emplace(si, std::move(c)).first->second;
}
static const char* opname(int k) { static const char* n[] = {"open", "create", "truncate", "close", "remove", "size", "flush", "seek", "read", "write"}; return n[k]; }

// does a loaded table carry the same orders, knots and coefficients?
static bool same_core(const Table& a, const Table& b) {
  if (a.ndim != b.ndim) return false;
  for (uint32_t i = 0; i < a.ndim; i++) {
    if (a.order[i] != b.order[i] || a.nknots[i] != b.nknots[i] || a.naxes[i] != b.naxes[i]) return false;
    if (memcmp(&a.knots[i][0], &b.knots[i][0], 8 * a.nknots[i])) return false;
  }
  return memcmp(&a.coefficients[0], &b.coefficients[0], 4 * a.get_ncoeffs()) == 0;
}
static bool same_aux(const Table& a, const Table& b) {
  if (a.naux != b.naux) return false;
  for (uint32_t i = 0; i < a.naux; i++) { if (strcmp(&a.aux[i][0][0], &b.aux[i][0][0])) return false; std::string x = &a.aux[i][1][0], y = &b.aux[i][1][0]; while (!y.empty() && y.back() == ' ') y.pop_back(); while (!x.empty() && x.back() == ' ') x.pop_back(); if (x != y) return false; }
  return true;
}
enum Load { REJECTED, EQUAL, DIFFERENT };
// tables whose read failed are leaked on purpose: their destruction belongs to C07/C20
static Load load_mem(const Table& orig, const unsigned char* p, size_t n, bool need_aux = false) {
  std::vector<unsigned char> copy(p, p + n); if (copy.empty()) copy.push_back(0);   // exact size: any read past the end is a redzone hit
  Table* r = new Table;
  try { r->read_fits_mem(copy.data(), n); } catch (std::exception&) { return REJECTED; }
  Load l = (same_core(orig, *r) && (!need_aux || same_aux(orig, *r))) ? EQUAL : DIFFERENT;
  delete r; return l;
}
static Load load_disk(const Table& orig, const unsigned char* p, size_t n) {
  std::string path = vf::fmt("c08_%d.fits", (int)getpid());
  { std::ofstream f(path, std::ios::binary); f.write((const char*)p, n); }
  Table* r = new Table; Load l;
  try { r->read_fits(path); l = same_core(orig, *r) ? EQUAL : DIFFERENT; delete r; } catch (std::exception&) { l = REJECTED; }
  remove(path.c_str());
  return l;
}

// ---------------------------------------------------------------- single I/O faults
static const char* FK[] = {"immediate", "deferred", "short0", "short1", "short2879", "short-n-1"};
static void run_fault(int si, uint64_t idx) {
  Ctx& c = ctx(si);
  int k = idx / 6, fk = idx % 6;
  const vfs_op& op = c.log[k];
  int mode = fk == 0 ? VFS_IMMEDIATE : (fk == 1 ? VFS_DEFERRED : VFS_SHORT);
  long sl = fk == 2 ? 0 : (fk == 3 ? 1 : (fk == 4 ? 2879 : op.len - 1));
  bool applicable = (op.kind == VFS_WRITE) || (fk == 0 && (op.kind == VFS_FLUSH || op.kind == VFS_CLOSE || op.kind == VFS_CREATE || op.kind == VFS_TRUNCATE || op.kind == VFS_READ));
  if (!applicable) { H->count("fault_kind_not_applicable_to_op"); return; }
  std::string cls = vf::fmt("%s:%s", FK[fk], opname(op.kind));
  H->hint(std::string(SN(si)) + ":" + cls);
  vfs_reset(); vfs_plan(k, mode, sl);
  bool threw = false;
  bool viaC = (k % 3 == 1);
  if (viaC) { struct splinetable st; st.data = c.t.get(); threw = writesplinefitstable("vfs://t", &st) != 0; }
  else { try { c.t->write_fits("vfs://t"); } catch (std::exception&) { threw = true; } }
  H->count("evaluations");
  if (vfs_is_open()) H->violation("file-left-open-after-write:" + cls, SN(si));
  if (!vfs_fault_fired()) { H->violation("harness:planned-fault-did-not-fire", vf::fmt("%s op %d", SN(si), k)); return; }
  H->count(threw ? "faults_reported" : "faults_survived_silently");
  H->cls(std::string(SN(si)) + "|" + cls + "|" + (threw ? "reported" : "silent"));
  if (!threw) {
    const unsigned char* p; size_t n = vfs_image(&p);
    Load l = (n == c.clean.size() && memcmp(p, c.clean.data(), n) == 0) ? EQUAL : load_mem(*c.t, p, n, true);
    if (l != EQUAL)
      H->violation(std::string(viaC ? "C-wrapper-" : "") + "success-reported-but-file-incomplete:" + cls,
                   vf::fmt("[%s] fault at op %d (%s off=%lld len=%ld): write returned normally, file on disk %s (size %zu of %zu)", SN(si), k, opname(op.kind), op.off, op.len, l == REJECTED ? "is rejected by the reader" : "loads as a DIFFERENT table", n, c.clean.size()));
  }
  else {   // the failure was reported: whatever file it left behind must still not pass for another table
    const unsigned char* p; size_t n = vfs_image(&p);
    if (n > 0) { Load l = (n == c.clean.size() && memcmp(p, c.clean.data(), n) == 0) ? EQUAL : load_mem(*c.t, p, n, true);
      H->count(l == REJECTED ? "leftovers_rejected" : (l == EQUAL ? "leftovers_equal" : "leftovers_different"));
      if (l == DIFFERENT) H->violation(std::string("file-left-by-a-reported-failure-loads-as-a-different-table:") + cls, vf::fmt("[%s] fault at op %d (%s off=%lld len=%ld): the write failed and said so, but the file it left behind (%zu of %zu bytes) loads as a table with other knots or coefficients", SN(si), k, opname(op.kind), op.off, op.len, n, c.clean.size())); }
    else H->count("leftovers_removed");
  }
  if (H->want_sample()) H->sample(vf::fmt("{\"shape\":\"%s\",\"fault\":\"%s\",\"op_index\":%d,\"op\":\"%s\",\"reported\":%s}", SN(si), FK[fk], k, opname(op.kind), threw ? "true" : "false"));
}

// ---------------------------------------------------------------- crash points
static void image_at(const Ctx& c, int nops, long partial, std::vector<unsigned char>& img) {
  img.clear();
  long long pos = 0;
  for (int i = 0; i <= nops && i < (int)c.log.size(); i++) {
    const vfs_op& op = c.log[i];
    bool last = (i == nops);
    if (last && !(op.kind == VFS_WRITE && partial > 0)) break;
    switch (op.kind) {
      case VFS_CREATE: case VFS_REMOVE: img.clear(); pos = 0; break;
      case VFS_TRUNCATE: img.resize(op.off, 0); break;
      case VFS_SEEK: pos = op.off; break;
      case VFS_READ: pos += op.len; break;
      case VFS_WRITE: { long n = last ? partial : op.len; if ((size_t)(pos + n) > img.size()) img.resize(pos + n, 0); memcpy(&img[pos], c.data[i].data(), n); pos += op.len; break; }
      default: break;
    }
  }
}
static void judge_image(const Ctx& c, int si, const std::vector<unsigned char>& img, const std::string& where, const std::string& cls) {
  Load a = load_mem(*c.t, img.data(), img.size());
  Load b = load_disk(*c.t, img.data(), img.size());
  H->count("evaluations", 2);
  H->count(a == EQUAL ? "images_accepted_equal" : (a == REJECTED ? "images_rejected" : "images_different"));
  H->cls(std::string(SN(si)) + "|" + cls + "|" + (a == EQUAL ? "equal" : a == REJECTED ? "rejected" : "different"));
  if (a == DIFFERENT) H->violation("crash-image-loads-as-different-table:mem-reader:" + cls, where);
  if (b == DIFFERENT) H->violation("crash-image-loads-as-different-table:disk-reader:" + cls, where);
}
static std::string region_of(const Ctx& c, long long off) {  // which part of the file is being written
  try { auto h = fr::parse(c.clean); for (size_t i = 0; i < h.size(); i++) if ((size_t)off < h[i].padded_end) return vf::fmt("hdu%zu-%s", i, (size_t)off < h[i].data_off ? "header" : "data"); } catch (...) {}
  return "tail";
}
static void run_crash_op(int si, uint64_t k) {
  Ctx& c = ctx(si);
  std::vector<unsigned char> img; image_at(c, (int)k, 0, img);
  std::string cls = k < c.log.size() ? std::string("before-") + opname(c.log[k].kind) + (c.log[k].kind == VFS_WRITE ? ":" + region_of(c, c.log[k].off) : "") : "after-last-op";
  H->hint(std::string(SN(si)) + ":crash-" + cls);
  judge_image(c, si, img, vf::fmt("[%s] crash after %llu of %zu driver operations (image %zu bytes of %zu)", SN(si), (unsigned long long)k, c.log.size(), img.size(), c.clean.size()), cls);
  if (H->want_sample()) H->sample(vf::fmt("{\"shape\":\"%s\",\"crash_after_ops\":%llu,\"image_bytes\":%zu}", SN(si), (unsigned long long)k, img.size()));
}
// byte-granular torn writes: the list of (op, partial) pairs of a shape
static std::vector<std::pair<int, long>>& torn_points(int si, bool every_byte) {
  static std::map<int, std::vector<std::pair<int, long>>> cache;
  int key = si * 2 + every_byte;
  auto it = cache.find(key); if (it != cache.end()) return it->second;
  Ctx& c = ctx(si); std::vector<std::pair<int, long>> v;
  for (size_t i = 0; i < c.log.size(); i++) if (c.log[i].kind == VFS_WRITE) {
    long n = c.log[i].len;
    if (every_byte) for (long b = 1; b < n; b++) v.push_back({(int)i, b});
    else { std::set<long> s; for (long b = 512; b < n; b += 512) { s.insert(b - 1); s.insert(b); s.insert(b + 1); } for (long b = 80; b < n && b < 2880 * 3; b += 80) s.insert(b); s.insert(1); s.insert(n - 1); for (long b : s) if (b > 0 && b < n) v.push_back({(int)i, b}); }
  }
  return cache.emplace(key, v).first->second;
}
static void run_crash_byte(int si, bool every_byte, uint64_t idx) {
  Ctx& c = ctx(si);
  auto& tp = torn_points(si, every_byte)[idx];
  std::vector<unsigned char> img; image_at(c, tp.first, tp.second, img);
  std::string cls = "torn-write:" + region_of(c, c.log[tp.first].off + tp.second);
  H->hint(std::string(SN(si)) + ":" + cls);
  judge_image(c, si, img, vf::fmt("[%s] crash inside write op %d (off=%lld len=%ld) after %ld bytes", SN(si), tp.first, c.log[tp.first].off, c.log[tp.first].len, tp.second), cls);
}

// ---------------------------------------------------------------- binding the virtual disk to reality
static fr::Bytes slurp(const std::string& p) { std::ifstream f(p, std::ios::binary); return fr::Bytes((std::istreambuf_iterator<char>(f)), std::istreambuf_iterator<char>()); }
static void run_conf(uint64_t idx) {
  int si = idx % NSHAPES; int kind = idx / NSHAPES;
  Ctx& c = ctx(si);
  std::string path = vf::fmt("c08conf_%d.fits", (int)getpid());
  H->hint(vf::fmt("%s:conformance-%d", SN(si), kind));
  if (kind == 0) {  // no fault: virtual image == real file == memory file
    c.t->write_fits(path); fr::Bytes real = slurp(path); remove(path.c_str());
    auto mb = c.t->write_fits_mem(); fr::Bytes mem((unsigned char*)mb.first, (unsigned char*)mb.first + mb.second); free(mb.first);
    if (real != c.clean) H->violation("harness:virtual-disk-differs-from-real-file", SN(si));
    if (mem != c.clean) H->violation("harness:virtual-disk-differs-from-memory-file", SN(si));
    H->count("traces_validated_against_impl"); H->cls(std::string("conformance-identical|") + SN(si));
    return;
  }
  if (kind == 1) return;  // (writing to /dev/full is NOT done: write_fits clobbers its target, which would delete the device node)
  if (kind == 2) {  // a directory / missing directory as target
    bool threw = false; try { c.t->write_fits("."); } catch (std::exception&) { threw = true; }
    if (!threw) H->violation("success-reported-writing-to-a-directory", SN(si));
    threw = false; try { c.t->write_fits("no/such/dir/x.fits"); } catch (std::exception&) { threw = true; }
    if (!threw) H->violation("success-reported-writing-to-a-missing-directory", SN(si));
    H->count("traces_validated_against_impl"); H->cls(std::string("conformance-dir|") + SN(si));
    return;
  }
  // kind >= 3: RLIMIT_FSIZE = (kind-2) * step bytes in a forked child with SIGXFSZ ignored
  // kind 3..14: twelve limits spread over the file; kind 15..30: sixteen limits inside the last ~4.5 KB (the final stdio buffer)
  size_t total = c.clean.size(); int nsteps = 12; size_t step = std::max<size_t>(1024, total / nsteps / 1024 * 1024);
  size_t limit = kind <= 14 ? (size_t)(kind - 2) * step - 512 : total - 1 - (size_t)(kind - 15) * 300;
  if (limit >= total) { H->count("rlimit_above_file_size"); return; }
  fflush(nullptr);
  pid_t pid = fork();
  if (pid == 0) {
    signal(SIGXFSZ, SIG_IGN);
    struct rlimit rl; rl.rlim_cur = rl.rlim_max = limit; setrlimit(RLIMIT_FSIZE, &rl);
    int rc = 0; try { c.t->write_fits(path); } catch (std::exception&) { rc = 1; }
    _exit(rc);
  }
  int st = 0; waitpid(pid, &st, 0);
  bool reported = WIFEXITED(st) && WEXITSTATUS(st) == 1;
  fr::Bytes onDisk = slurp(path); remove(path.c_str());
  H->count("traces_validated_against_impl");
  H->cls(std::string("conformance-rlimit|") + SN(si) + (reported ? "|reported" : "|silent"));
  if (!(WIFEXITED(st))) { H->violation("write-crashed-under-file-size-limit", SN(si)); return; }
  // stdio hands data to the kernel in units of its buffer (st_blksize): a limit at or above the last buffer boundary below the
  // file size loses only the final, partial buffer, which is written by the fflush inside cfitsio's close path
  size_t blk = 4096; { struct stat sb; if (stat(".", &sb) == 0 && sb.st_blksize > 0) blk = sb.st_blksize; }
  bool only_last = limit >= total / blk * blk;
  if (!reported && onDisk != c.clean)
    H->violation(std::string("success-reported-but-file-incomplete:real-driver:RLIMIT_FSIZE") + (only_last ? ":only-the-final-stdio-buffer-lost" : ""), vf::fmt("[%s] limit %zu of %zu bytes: write_fits returned normally, %zu bytes on disk", SN(si), limit, total, onDisk.size()));
  // the partial file must not load as a different table
  if (onDisk != c.clean && !onDisk.empty()) { Load l = load_mem(*c.t, onDisk.data(), onDisk.size()); if (l == DIFFERENT) H->violation("crash-image-loads-as-different-table:real-partial-file", SN(si)); }
}

int main(int argc, char** argv) {
  vf::Harness h("C08", argc, argv);
  H = &h;
  h.meta("level", "fault_enumeration");
  h.meta("rule", "history = the driver-operation log of the real write_fits on an in-memory cfitsio driver for six table shapes (6..300 FITS blocks, 1..5 dimensions, 0..40 aux keys; the large ones exceed cfitsio's 40-buffer pool; 36 header-fill shapes; four shapes whose first / middle / last knot vector is long enough (>= 1080 knots) for file I/O to happen inside the KNOTSn write itself); faults: for EVERY operation index x {immediate error, deferred error surfacing at the next flush/close, short write of 0 / 1 / 2879 / n-1 bytes} (C++ and C entry); crash points: EVERY prefix of the log at operation granularity, and torn final writes at every byte (small files) or every 512-byte sector edge +-1 and every card edge (large files), each image loaded through read_fits_mem and through a real file with read_fits; conformance: virtual image == real file == memory file, directory targets, RLIMIT_FSIZE steps in a forked child; distinct = (shape, fault kind, operation kind / file region, outcome)");
  h.meta("assumption", "seek failures are not injected: the property lists space, size-limit, write and close errors, and cfitsio itself drops the status of a failed seek");
  h.meta("assumption", "single fault per write (pairs are not enumerated); unwritten gaps read as zeros (POSIX sparse file semantics)");
  h.meta("assumption", "tables whose read failed are not destructed here (that is C07/C20's subject)");
  h.meta("require_faults_reported", "20");
  h.meta("require_images_rejected", "20");
  h.meta("require_images_accepted_equal", "1");
  h.meta("deadline_quick", "900"); h.meta("deadline_thorough", "2400");
  h.timeout_s = 120;
  vfs_register();
  if (getenv("C08_DUMP")) { int si = atoi(getenv("C08_DUMP")); auto& L = ctx(si).log; for (size_t i = 0; i < L.size(); i++) printf("%zu %s off=%lld len=%ld\n", i, opname(L[i].kind), L[i].off, L[i].len); return 0; }
  bool T = h.thorough;
  h.add_space("conformance", NSHAPES * 31, run_conf);
  for (int si = 0; si < (int)SHAPES.size(); si++) {
    // (all six shapes in both tiers: the 300-block shape with 40 keys is the one whose header overflows after data exist)
    size_t L = ctx(si).log.size();
    h.add_space(vf::fmt("fault-%s", SN(si)), L * 6, [si](uint64_t i) { run_fault(si, i); });
    h.add_space(vf::fmt("crash-op-%s", SN(si)), L + 1, [si](uint64_t i) { run_crash_op(si, i); });
  }
  for (int si = 0; si < NSHAPES; si++) {
    bool every = (si == 0) || (T && si <= 2);
    if (!T && !(si == 0 || si == 4)) continue;
    h.add_space(vf::fmt("crash-byte-%s", SN(si)), torn_points(si, every).size(), [si, every](uint64_t i) { run_crash_byte(si, every, i); });
  }
  return h.main();
}
