// C18 — the C interface is a faithful, leak-free wrapper: BFS over call sequences on two handles, mirrored on a C++ twin.
#include "engine/vf.hpp"
#include "engine/tablegen.hpp"
#include <photospline/splinetable.h>
#include <photospline/cinter/splinetable.h>
#include <deque>
#include <fstream>
extern "C" size_t __sanitizer_get_current_allocated_bytes(void);
typedef photospline::splinetable<> Table;
static vf::Harness* H;

struct Fix { std::vector<unsigned char> A, B, corrupt; std::string pathA, pathB, pathCorrupt; };
static Fix& fix() {
  static Fix F; if (!F.A.empty()) return F;
  auto mk = [](std::vector<uint32_t> orders, std::vector<uint64_t> nax, bool aux) {
    tg::TableSpec s; for (size_t i = 0; i < orders.size(); i++) s.dims.push_back({orders[i], tg::make_knots(i % 2 ? tg::K_IRREGULAR : tg::K_UNIFORM, orders[i], nax[i] + orders[i] + 1, 0.5 * i)});
    s.coeffs = tg::make_coeffs(1, s.ncoeffs(), 5, orders.size()); for (size_t i = 0; i < orders.size(); i++) s.periods.push_back(i * 2.5);
    Table t; tg::build(t, s); if (aux) { t.write_key("IVAL", 42); t.write_key("DVAL", 0.5); t.write_key("SVAL", std::string("text")); }
    auto b = t.write_fits_mem(); std::vector<unsigned char> v((unsigned char*)b.first, (unsigned char*)b.first + b.second); free(b.first); return v;
  };
  F.A = mk({2}, {6}, true); F.B = mk({1, 2}, {4, 5}, false);
  F.corrupt = F.B; { std::string hay(F.corrupt.begin(), F.corrupt.end()); size_t p = hay.find("KNOTS1"); if (p != std::string::npos) F.corrupt[p + 5] = '7'; }
  auto dump = [](const std::string& p, const std::vector<unsigned char>& b) { std::ofstream f(p, std::ios::binary); f.write((const char*)b.data(), b.size()); };
  F.pathA = vf::fmt("c18A_%d.fits", (int)getpid()); F.pathB = vf::fmt("c18B_%d.fits", (int)getpid()); F.pathCorrupt = vf::fmt("c18C_%d.fits", (int)getpid());
  dump(F.pathA, F.A); dump(F.pathB, F.B); dump(F.pathCorrupt, F.corrupt);
  return F;
}

enum OpK { K_INIT, K_FREE, K_READ_A, K_READ_B, K_READ_MISSING, K_READ_CORRUPT, K_READMEM_A, K_READMEM_CORRUPT, K_WRITE_OK, K_WRITE_BAD, K_WRITE_MEM, K_GETKEY, K_READKEY, K_WRITEKEY_OK, K_WRITEKEY_BAD, K_ACCESSORS, K_EVAL, K_FIT_OK, K_FIT_BAD, K_FIT_MONO, K_GRIDEVAL, K_PERMUTE_OK, K_PERMUTE_BAD, K_CONVOLVE, K_CONVOLVE_BAD, K_N };
static const char* KN[] = {"init", "free", "read(A)", "read(B)", "read(missing)", "read(corrupt)", "read_mem(A)", "read_mem(corrupt)", "write(ok)", "write(unwritable)", "write_mem", "get_key", "read_key", "write_key(ok)", "write_key(reserved)", "accessors", "evaluate", "glamfit(valid)", "glamfit(invalid)", "glamfit(monotonic)", "grideval", "permute(valid)", "permute(invalid)", "convolve", "convolve(dim=ndim)"};
struct Op { int kind, h; std::string label() const { return vf::fmt("h%d.%s", h, KN[kind]); } };

struct World { struct splinetable c[2]; std::unique_ptr<Table> t[2]; int nconv[2]; World() { c[0].data = c[1].data = nullptr; nconv[0] = nconv[1] = 0; } };
static void close_world(World& w) { for (int i = 0; i < 2; i++) { splinetable_free(&w.c[i]); w.t[i].reset(); } }

static std::string dig(const Table* t) {
  if (!t) return "UNINIT"; if (t->get_ndim() == 0) return "EMPTY" + std::string(t->get_naux_values() ? "+aux" : "");
  std::string s; auto add = [&](const void* p, size_t n) { s.append((const char*)p, n); };
  uint32_t nd = t->get_ndim(); add(&nd, 4);
  for (uint32_t i = 0; i < nd; i++) { uint32_t o = t->get_order(i); uint64_t nk = t->get_nknots(i), na = t->get_ncoeffs(i), st = t->get_stride(i); add(&o, 4); add(&nk, 8); add(&na, 8); add(&st, 8); add(t->get_knots(i), 8 * nk); double e0 = t->lower_extent(i), e1 = t->upper_extent(i); add(&e0, 8); add(&e1, 8); }
  add(t->get_coefficients(), 4 * t->get_ncoeffs());
  for (size_t i = 0; i < t->get_naux_values(); i++) { std::string v = t->get_aux_value(t->get_aux_key(i)); while (!v.empty() && v.back() == ' ') v.pop_back(); s += std::string("|") + t->get_aux_key(i) + "=" + v; }
  return s;
}
// the same digest taken through the C accessors only
static std::string dig_c(const struct splinetable* h) {
  if (!h->data) return "UNINIT"; const Table* tt = static_cast<const Table*>(h->data);
  if (splinetable_ndim(h) == 0) return "EMPTY" + std::string(tt->get_naux_values() ? "+aux" : "");
  std::string s; auto add = [&](const void* p, size_t n) { s.append((const char*)p, n); };
  uint32_t nd = splinetable_ndim(h); add(&nd, 4);
  for (uint32_t i = 0; i < nd; i++) { uint32_t o = splinetable_order(h, i); uint64_t nk = splinetable_nknots(h, i), na = splinetable_ncoeffs(h, i), st = splinetable_stride(h, i); add(&o, 4); add(&nk, 8); add(&na, 8); add(&st, 8); add(splinetable_knots(h, i), 8 * nk); for (uint64_t j = 0; j < nk; j += std::max<uint64_t>(1, nk / 3)) if (splinetable_knot(h, i, j) != splinetable_knots(h, i)[j]) s += "KNOT-ACCESSOR-MISMATCH"; double e0 = splinetable_lower_extent(h, i), e1 = splinetable_upper_extent(h, i); add(&e0, 8); add(&e1, 8); }
  add(splinetable_coefficients(h), 4 * splinetable_total_ncoeffs(h));
  for (size_t i = 0; i < tt->get_naux_values(); i++) { const char* v0 = splinetable_get_key(h, tt->get_aux_key(i)); std::string v = v0 ? v0 : "<NULL>"; while (!v.empty() && v.back() == ' ') v.pop_back(); s += std::string("|") + tt->get_aux_key(i) + "=" + v; }
  return s;
}

struct FitArgs { std::vector<double> xs, knots, w, y; std::vector<unsigned> idx; };
static FitArgs fitargs() { FitArgs a; uint32_t order = 2; for (size_t i = 0; i < 6 + order + 1; i++) a.knots.push_back((double)i); for (unsigned i = 0; i < 12; i++) { a.xs.push_back(2.05 + i * 0.45); a.idx.push_back(i); a.y.push_back(0.5 * i + (i % 3)); a.w.push_back(1.0); } return a; }

// perform the call through C and the mirrored C++ operation; returns the two observation strings
static void step(World& w, const Op& op, std::string& oc, std::string& ot, bool& applicable) {
  Fix& F = fix(); struct splinetable* h = &w.c[op.h]; std::unique_ptr<Table>& t = w.t[op.h]; applicable = true; oc.clear(); ot.clear();
  auto rc = [&](int r) { return vf::fmt("rc=%d", r != 0); };
  auto cpp = [&](std::function<void()> f) { try { f(); return std::string("rc=0"); } catch (std::exception&) { return std::string("rc=1"); } };
  bool init = h->data != nullptr; bool pop = init && t->get_ndim() != 0;
  switch (op.kind) {
    case K_INIT: if (init) { applicable = false; return; } oc = rc(splinetable_init(h)); t.reset(new Table); ot = "rc=0"; break;
    case K_FREE: splinetable_free(h); t.reset(); w.nconv[op.h] = 0; oc = ot = "void"; break;
    case K_READ_A: case K_READ_B: case K_READ_MISSING: case K_READ_CORRUPT: {
      std::string p = op.kind == K_READ_A ? F.pathA : op.kind == K_READ_B ? F.pathB : op.kind == K_READ_CORRUPT ? F.pathCorrupt : "no-such-file.fits";
      oc = rc(readsplinefitstable(p.c_str(), h)); t.reset(); w.nconv[op.h] = 0; ot = cpp([&] { t.reset(new Table(p)); }); break; }
    case K_READMEM_A: case K_READMEM_CORRUPT: {
      std::vector<unsigned char> b1 = op.kind == K_READMEM_A ? F.A : F.corrupt, b2 = b1; struct splinetable_buffer sb; sb.data = b1.data(); sb.size = b1.size();
      oc = rc(readsplinefitstable_mem(&sb, h)); if (!t) t.reset(new Table); ot = cpp([&] { t->read_fits_mem(b2.data(), b2.size()); }); break; }
    case K_WRITE_OK: case K_WRITE_BAD: {
      if (!init) { applicable = false; return; }
      std::string p = op.kind == K_WRITE_OK ? vf::fmt("c18w_%d.fits", (int)getpid()) : "no/such/dir/x.fits", p2 = op.kind == K_WRITE_OK ? vf::fmt("c18w2_%d.fits", (int)getpid()) : p;
      oc = rc(writesplinefitstable(p.c_str(), h)); ot = cpp([&] { t->write_fits(p2); });
      if (op.kind == K_WRITE_OK && oc == "rc=0" && ot == "rc=0") { std::ifstream f1(p, std::ios::binary), f2(p2, std::ios::binary); std::string a((std::istreambuf_iterator<char>(f1)), std::istreambuf_iterator<char>()), b((std::istreambuf_iterator<char>(f2)), std::istreambuf_iterator<char>()); oc += vf::fmt(" bytes=%zu", a.size()); ot += vf::fmt(" bytes=%zu", b.size()); if (a != b) oc += " CONTENT-DIFFERS"; }
      remove(p.c_str()); remove(p2.c_str()); break; }
    case K_WRITE_MEM: {
      if (!init) { applicable = false; return; }
      struct splinetable_buffer sb; sb.data = nullptr; sb.size = 0; oc = rc(writesplinefitstable_mem(&sb, h));
      std::pair<void*, size_t> b(nullptr, 0); ot = cpp([&] { b = t->write_fits_mem(); });
      if (sb.data && b.first) { oc += vf::fmt(" bytes=%zu", sb.size); ot += vf::fmt(" bytes=%zu", b.second); if (sb.size != b.second || memcmp(sb.data, b.first, b.second)) oc += " CONTENT-DIFFERS"; }
      // a second write into the SAME, still occupied buffer struct: the header documents that data must be NULL; the call must fail
      // and must leave the caller's block alone (otherwise the first block can never be freed)
      if (sb.data) { void* before = sb.data; size_t sbefore = sb.size; int r2 = writesplinefitstable_mem(&sb, h); oc += rc(r2) + (sb.data == before && sb.size == sbefore ? " buffer-kept" : " BUFFER-REPLACED"); ot += "rc=1 buffer-kept"; if (sb.data != before) free(before); }
      free(sb.data); free(b.first); break; }
    case K_GETKEY: { if (!init) { applicable = false; return; } for (const char* k : {"IVAL", "SVAL", "NOPE", "NEWKEY"}) { const char* a = splinetable_get_key(h, k); const char* b = t->get_aux_value(k); oc += std::string(a ? a : "<NULL>") + ";"; ot += std::string(b ? b : "<NULL>") + ";"; } break; }
    case K_READKEY: { if (!init) { applicable = false; return; }
      for (const char* k : {"IVAL", "DVAL", "SVAL", "NOPE"}) { int ci = -1, ti = -1; double cd = -1, td = -1; int r1 = splinetable_read_key(h, SPLINETABLE_INT, k, &ci); bool b1 = t->read_key(k, ti); int r2 = splinetable_read_key(h, SPLINETABLE_DOUBLE, k, &cd); bool b2 = t->read_key(k, td);
        oc += vf::fmt("%s:int rc=%d%s dbl rc=%d%s;", k, r1 != 0, r1 == 0 ? vf::fmt(" %d", ci).c_str() : "", r2 != 0, r2 == 0 ? vf::fmt(" %a", cd).c_str() : ""); ot += vf::fmt("%s:int rc=%d%s dbl rc=%d%s;", k, !b1, b1 ? vf::fmt(" %d", ti).c_str() : "", !b2, b2 ? vf::fmt(" %a", td).c_str() : ""); } break; }
    case K_WRITEKEY_OK: { if (!init) { applicable = false; return; } int v = 1234567 /* more digits than a stream prints for a double by default */; double d = 2.25; oc = rc(splinetable_write_key(h, SPLINETABLE_INT, "NEWKEY", &v)) + rc(splinetable_write_key(h, SPLINETABLE_DOUBLE, "DVAL", &d)); ot = cpp([&] { t->write_key("NEWKEY", v); }) + cpp([&] { t->write_key("DVAL", d); }); break; }
    case K_WRITEKEY_BAD: { if (!init) { applicable = false; return; } int v = 7; oc = rc(splinetable_write_key(h, SPLINETABLE_INT, "NAXIS1", &v)); ot = cpp([&] { t->write_key("NAXIS1", v); }); break; }
    case K_ACCESSORS: { if (!pop) { applicable = false; return; } oc = vf::fmt("%zu", std::hash<std::string>()(dig_c(h))); ot = vf::fmt("%zu", std::hash<std::string>()(dig(t.get()))); for (uint32_t i = 0; i < t->get_ndim(); i++) { oc += vf::fmt(" %a", splinetable_period(h, i)); ot += vf::fmt(" %a", t->get_period(i)); } break; }
    case K_EVAL: { if (!pop) { applicable = false; return; } uint32_t nd = t->get_ndim();
      for (int pt = 0; pt < 3; pt++) { std::vector<double> x(nd); for (uint32_t i = 0; i < nd; i++) { const double* k = t->get_knots(i); uint64_t n = t->get_nknots(i); x[i] = pt == 0 ? k[t->get_order(i)] + 0.3 * (k[t->get_order(i) + 1] - k[t->get_order(i)]) : (pt == 1 ? k[0] + 0.5 * (k[1] - k[0]) : k[n - 1] + 1.0); }
        std::vector<int> c1(nd, -1), c2(nd, -1); int o1 = tablesearchcenters(h, x.data(), c1.data()); bool o2 = t->searchcenters(x.data(), c2.data()); oc += vf::fmt("ok=%d ", o1 != 0); ot += vf::fmt("ok=%d ", (int)o2);
        if (o1 && o2) { oc += vf::vecstr(c1); ot += vf::vecstr(c2); oc += vf::fmt(" %a %a", ndsplineeval(h, x.data(), c1.data(), 0), ndsplineeval(h, x.data(), c1.data(), 1)); ot += vf::fmt(" %a %a", t->ndsplineeval(x.data(), c2.data(), 0), t->ndsplineeval(x.data(), c2.data(), 1));
          std::vector<double> g1(nd + 1), g2(nd + 1); ndsplineeval_gradient(h, x.data(), c1.data(), g1.data()); t->ndsplineeval_gradient(x.data(), c2.data(), g2.data()); for (uint32_t i = 0; i <= nd; i++) { oc += vf::fmt(" %a", g1[i]); ot += vf::fmt(" %a", g2[i]); }
          std::vector<unsigned> der(nd, 1); oc += vf::fmt(" %a", ndsplineeval_deriv(h, x.data(), c1.data(), der.data())); ot += vf::fmt(" %a", t->ndsplineeval_deriv(x.data(), c2.data(), der.data())); } }
      break; }
    case K_FIT_OK: case K_FIT_BAD: case K_FIT_MONO: { if (!init) { applicable = false; return; }
      FitArgs a = fitargs(); bool bad = op.kind == K_FIT_BAD; uint32_t order = 2, po = bad ? 7u : 1u; double sm = 0.1; uint32_t mono = op.kind == K_FIT_MONO ? 0u : PHOTOSPLINE_GLAM_NO_MONODIM;   // the monotonic fit goes through the NNLS solver and its worker threads (saw-tooth data: the constraint is active)
      unsigned* ip = a.idx.data(); unsigned ranges = 12; ::ndsparse nd; nd.rows = 12; nd.ndim = 1; nd.i = &ip; nd.ranges = &ranges; nd.x = a.y.data();
      const double* cp = a.xs.data(); const double* kp = a.knots.data(); uint64_t nk = a.knots.size();
      oc = rc(splinetable_glamfit(h, &nd, a.w.data(), &cp, &order, &kp, &nk, &sm, &po, mono, false));
      std::vector<std::vector<double>> coords{a.xs}, kn{a.knots}; std::vector<uint32_t> ord{order}, pov{po}; std::vector<double> smv{sm};
      ot = cpp([&] { t->fit(nd, a.w, coords, ord, kn, smv, pov, mono, false); }); if (!bad) w.nconv[op.h] = 0; break; }
    case K_GRIDEVAL: {
      if (!pop) {   // a failing call (no table behind the handle): non-zero return AND *result reset to NULL, as the header promises, so that callers may destroy it unconditionally
        double g0[2] = {0.5, 1.5}; const double* cp0[1] = {g0}; uint32_t nn0[1] = {2}; struct ndsparse* r = (struct ndsparse*)(uintptr_t)0x10;
        int rv = splinetable_grideval(h, cp0, nn0, &r);
        oc = rc(rv) + (r == nullptr ? " result=NULL" : " result=left-as-it-was"); ot = "rc=1 result=NULL"; break; }
      uint32_t nd = t->get_ndim(); std::vector<std::vector<double>> coords; std::vector<const double*> cp; std::vector<uint32_t> nn;
      for (uint32_t i = 0; i < nd; i++) { const double* k = t->get_knots(i); std::vector<double> g; for (int j = 0; j < 3; j++) g.push_back(k[t->get_order(i)] + (0.2 + 0.3 * j) * (k[t->get_ncoeffs(i)] - k[t->get_order(i)])); coords.push_back(g); }
      for (auto& g : coords) { cp.push_back(g.data()); nn.push_back(g.size()); }
      struct ndsparse* r = nullptr; oc = rc(splinetable_grideval(h, cp.data(), nn.data(), &r)); std::unique_ptr<photospline::ndsparse> r2; ot = cpp([&] { r2 = t->grideval(coords); });
      if (r && r2) { oc += vf::fmt(" rows=%zu", r->rows); ot += vf::fmt(" rows=%zu", r2->rows); if (r->rows == r2->rows) for (size_t q = 0; q < r->rows; q++) { oc += vf::fmt(" %a", r->x[q]); ot += vf::fmt(" %a", r2->x[q]); } }
      if (r) ndsparse_destroy(r); break; }
    case K_PERMUTE_OK: case K_PERMUTE_BAD: { if (!init) { applicable = false; return; }   /* also on an initialised but empty handle: the empty permutation is a no-op, anything else is refused */ uint32_t nd = t->get_ndim(); std::vector<size_t> p; for (uint32_t i = nd; i-- > 0;) p.push_back(i); if (op.kind == K_PERMUTE_BAD) { if (p.empty()) { applicable = false; return; } /* the C interface reads exactly ndim entries: it cannot be handed a wrong-length argument */ p[0] = nd + 3; }
      std::vector<size_t> p1 = p; oc = rc(splinetable_permute(h, p1.data())); ot = cpp([&] { t->permuteDimensions(p); }); break; }
    case K_CONVOLVE_BAD: { if (!init) { applicable = false; return; } double k[3] = {-0.25, 0.0, 0.5}; uint32_t nd = t->get_ndim();   /* a dimension that does not exist (dimension 0 of an empty table): refused by both */
      oc = rc(splinetable_convolve(h, (int)nd, k, 3)); ot = cpp([&] { t->convolve(nd, k, 3); }); break; }
    case K_CONVOLVE: { if (!pop || w.nconv[op.h] >= 1) { applicable = false; return; } double k[3] = {-0.25, 0.0, 0.5}; oc = rc(splinetable_convolve(h, 0, k, 3)); ot = cpp([&] { t->convolve(0, k, 3); }); w.nconv[op.h]++; break; }
  }
}

static std::vector<Op> g_ops;
static bool replay(const std::vector<int>& path, World& w) { for (int oi : path) { std::string a, b; bool ap; step(w, g_ops[oi], a, b, ap); if (!ap) return false; } return true; }
static std::string state_of(const World& w) { return vf::fmt("%zx|%zx", std::hash<std::string>()(dig(w.t[0].get())), std::hash<std::string>()(dig(w.t[1].get()))) + vf::fmt("|%d%d", w.nconv[0], w.nconv[1]); }
static std::string state_label(const World& w) { auto lab = [](const Table* t) { if (!t) return std::string("uninit"); if (!t->get_ndim()) return std::string("empty"); return vf::fmt("%ud/%llu coeffs/%zu keys", t->get_ndim(), (unsigned long long)t->get_ncoeffs(), t->get_naux_values()); }; return lab(w.t[0].get()) + " , " + lab(w.t[1].get()); }

static void explore(int maxdepth) {
  H->hint("call-sequence-bfs"); fix();
  g_ops.clear(); for (int h = 0; h < 2; h++) for (int k = 0; k < K_N; k++) g_ops.push_back({k, h});
  std::map<std::string, std::vector<int>> path_of; std::deque<std::string> frontier;
  { World w0; path_of[state_of(w0)] = {}; frontier.push_back(state_of(w0)); }
  uint64_t transitions = 0, leakchecks = 0; size_t deepest = 0;
  while (!frontier.empty()) {
    std::string cs = frontier.front(); frontier.pop_front(); std::vector<int> path = path_of[cs];
    for (size_t oi = 0; oi < g_ops.size(); oi++) {
      const Op& op = g_ops[oi]; std::string okey = KN[op.kind];
      size_t after[2] = {0, 0}; bool skipped = false; std::string ns;
      for (int round = 0; round < 2 && !skipped; round++) {   // every transition is executed twice: the second run must not grow the heap
        World w; if (!replay(path, w)) { H->violation("harness:history-not-reproducible", cs); skipped = true; break; }
        std::string oc, ot; bool ap; std::string lab = state_label(w);
        step(w, op, oc, ot, ap); if (!ap) { close_world(w); skipped = true; break; }
        if (round == 0) {
          transitions++; H->count("evaluations");
          std::string where = "calls {"; for (int pi : path) where += g_ops[pi].label() + "; "; where += "} then " + op.label() + "   [handles: " + lab + "]";
          H->hint(okey);
          if (oc != ot) H->violation("C-call-differs-from-C++-twin:" + okey, where + " C: " + oc.substr(0, 300) + " | C++: " + ot.substr(0, 300));
          for (int i = 0; i < 2; i++) { std::string dc = dig_c(&w.c[i]), dt = dig(w.t[i].get()); if (dc != dt) H->violation("handle-state-differs-from-C++-twin:" + okey, where + vf::fmt(" handle %d", i)); }
          H->cls(okey + "|" + oc.substr(0, 4) + "|" + (w.c[op.h].data ? (static_cast<Table*>(w.c[op.h].data)->get_ndim() ? "populated" : "empty") : "uninit"));
          ns = state_of(w);
        }
        close_world(w);
        after[round] = __sanitizer_get_current_allocated_bytes();
      }
      if (skipped) continue;
      leakchecks++;
      if (after[1] > after[0]) { std::string where = "calls {"; for (int pi : path) where += g_ops[pi].label() + "; "; where += "} then " + op.label(); H->violation("heap-grows-when-the-sequence-is-repeated:" + okey, where + vf::fmt(" (%zu bytes more after the second run, all handles freed)", after[1] - after[0])); }
      if (!path_of.count(ns) && path.size() < (size_t)maxdepth) { auto p = path; p.push_back(oi); path_of[ns] = p; frontier.push_back(ns); deepest = std::max(deepest, p.size()); }
    }
  }
  H->count("states", path_of.size()); H->count("transitions", transitions); H->count("traces_validated_against_impl", transitions); H->count("leak_checks", leakchecks);
  H->note(vf::fmt("states=%zu transitions=%llu leak checks=%llu depth bound=%d deepest shortest history=%zu%s", path_of.size(), (unsigned long long)transitions, (unsigned long long)leakchecks, maxdepth, deepest, deepest < (size_t)maxdepth ? " (FIXPOINT: histories of every length are covered)" : ""));
  std::string sm = "{\"calls\":["; for (int k = 0; k < K_N; k++) sm += std::string(k ? "," : "") + "\"" + KN[k] + "\""; H->sample(sm + "],\"handles\":2}");
  Fix& F = fix(); remove(F.pathA.c_str()); remove(F.pathB.c_str()); remove(F.pathCorrupt.c_str());
}

int main(int argc, char** argv) {
  vf::Harness h("C18", argc, argv);
  H = &h;
  h.meta("level", "model_checking");
  h.meta("rule", "breadth-first search over call sequences of the C interface on two handles: init, free, readsplinefitstable (two good files, missing, corrupt; into uninitialised, empty and occupied handles), readsplinefitstable_mem (good, corrupt), writesplinefitstable (ok, unwritable), writesplinefitstable_mem, get_key, read_key (int and double; present, absent, unparsable), write_key (ok, reserved), every accessor, searchcenters / ndsplineeval / gradient / deriv at interior, margin and out-of-range points, glamfit (valid, invalid), grideval + ndsparse_destroy, permute (valid, invalid), convolve; state = pair of handle states (uninitialised, empty, digest of the table incl. keys), deduplicated, depth-bounded; every call is mirrored on a C++ twin driven through the C++ API and the return codes, output values (bit patterns), written bytes and resulting handle states are compared; every transition (history + call + free of all handles) is executed twice and the allocator's live byte count after the second run must not exceed that after the first");
  h.meta("assumption", "calls whose documented precondition is a populated (or initialised) handle are only issued when it holds; leak oracle = __sanitizer_get_current_allocated_bytes after freeing all handles");
  h.meta("require_states", "30"); h.meta("require_leak_checks", "500");
  h.meta("deadline_quick", "900"); h.meta("deadline_thorough", "3000");
  h.timeout_s = 2400;
  bool T = h.thorough;
  int depth = T ? 64 : 4; if (getenv("C18_DEPTH")) depth = atoi(getenv("C18_DEPTH"));   // thorough: the abstract state graph is finite (729 states, longest shortest history 10), so the search runs to its fixpoint
  h.add_space("bfs", 1, [depth](uint64_t) { explore(depth); });
  return h.main();
}
