// C05 — lookup and evaluation are memory-safe for every coordinate vector (sanitizers are the oracle).
#include "engine/vf.hpp"
#include "engine/tablegen.hpp"
#include <photospline/cinter/splinetable.h>
#include <memory>
#include <cfloat>
#include <map>

typedef photospline::splinetable<> Table;
static vf::Harness* H;

struct Cand { double x; const char* cls; };
static std::vector<Cand> special_axis(const tg::DimSpec& D, bool reduced) {
  auto& k = D.knots; size_t n = k.size(), na = D.naxes(); uint32_t o = D.order;
  auto mid = [&](size_t i) { return k[i] + 0.5 * (k[i + 1] - k[i]); };
  std::vector<Cand> c = {
      {std::numeric_limits<double>::quiet_NaN(), "NaN"}, {INFINITY, "+inf"}, {-INFINITY, "-inf"}, {DBL_MAX, "+max"}, {-DBL_MAX, "-max"},
      {4.9406564584124654e-324, "denorm"}, {k[0], "k0"}, {std::nextafter(k[0], INFINITY), "k0+ulp"}, {k[na], "k[naxes]"},
      {std::nextafter(k[na], INFINITY), "k[naxes]+ulp"}, {k[n - 1], "klast"}, {std::nextafter(k[n - 1], INFINITY), "klast+ulp"},
      {mid(o), "interior"}, {mid(0), "low-margin"}, {mid(n - 2), "high-margin"}};
  if (!reduced) {
    c.push_back({std::nextafter(k[0], -INFINITY), "k0-ulp"}); c.push_back({std::nextafter(k[o], -INFINITY), "k[order]-ulp"}); c.push_back({k[o], "k[order]"});
    c.push_back({std::nextafter(k[na], -INFINITY), "k[naxes]-ulp"}); c.push_back({std::nextafter(k[n - 1], -INFINITY), "klast-ulp"});
    c.push_back({k[n - 1] + 1e6, "far-above"}); c.push_back({k[0] - 1e6, "far-below"});
    for (size_t j = 1; j + 1 < n; j++) c.push_back({k[j], "knot"});
  }
  return c;
}

static std::string coarse(const std::string& cls) {
  std::set<std::string> parts; std::string cur, o;
  for (char c : cls + ",") { if (c == ',') { if (!cur.empty()) parts.insert(cur); cur.clear(); } else cur += c; }
  for (auto& p : parts) { if (!o.empty()) o += "+"; o += p; }
  return o;
}
static bool g_thorough = false;

template <class T> struct Guarded {
  std::vector<T> buf; size_t n;
  Guarded(size_t n_, T fill) : buf(n_ + 16, fill), n(n_) {}
  T* data() { return buf.data() + 8; }
  bool intact(T fill) const { for (size_t i = 0; i < 8; i++) if (memcmp(&buf[i], &fill, sizeof(T)) || memcmp(&buf[n + 8 + i], &fill, sizeof(T))) return false; return true; }
};

static volatile double g_sink;

template <class Float>
static void run_entries(const Table& t, const double* x, const int* c, const std::string& where) {
  uint32_t nd = t.get_ndim();
  auto ev = t.get_evaluator<Float>();
  std::vector<int> masks;
  if (nd <= 4) for (int m = 0; m < (1 << nd); m++) masks.push_back(m);
  else { masks.push_back(0); for (uint32_t i = 0; i < nd; i++) masks.push_back(1 << i); masks.push_back((1 << nd) - 1); }
  for (int m : masks) { g_sink = t.ndsplineeval<Float>(x, c, m); g_sink = ev.ndsplineeval(x, c, m); H->count("evaluations", 2); }
  g_sink = ev(x, 0);
  Guarded<double> out(nd + 1, -7.25);
  bool threw = false;
  try { t.ndsplineeval_gradient<Float>(x, c, out.data()); } catch (std::runtime_error&) { threw = true; }
  if (!out.intact(-7.25)) H->violation("gradient-wrote-outside-buffer", where);
  if ((nd + 1 > PHOTOSPLINE_MAXDIM) != threw) H->violation(threw ? "gradient-threw-unexpectedly" : "gradient-did-not-refuse", where);
  threw = false;
  try { ev.ndsplineeval_gradient(x, c, out.data()); } catch (std::runtime_error&) { threw = true; }
  if (!out.intact(-7.25)) H->violation("gradient-wrote-outside-buffer", where);
  if ((nd + 1 > PHOTOSPLINE_MAXDIM) != threw) H->violation(threw ? "gradient-threw-unexpectedly" : "gradient-did-not-refuse", where);
  H->count("evaluations", 2);
}

static void battery(const Table& t, const std::vector<double>& x, const std::string& where) {
  uint32_t nd = t.get_ndim();
  Guarded<int> cen(nd, -424242);
  bool ok = t.searchcenters(x.data(), cen.data());
  if (!cen.intact(-424242)) H->violation("lookup-wrote-outside-buffer", where);
  g_sink = t(x.data());
  { struct splinetable st; st.data = const_cast<Table*>(&t); Guarded<int> c2(nd, -424242); int okc = tablesearchcenters(&st, x.data(), c2.data()); if ((okc != 0) != ok) H->violation("c-lookup-differs", where); }
  H->count(ok ? "lookups_ok" : "lookups_rejected");
  if (!ok) return;
  const int* c = cen.data();
  for (uint32_t i = 0; i < nd; i++)
    if (!(c[i] >= (int)t.get_order(i) && c[i] <= (int)t.get_nknots(i) - (int)t.get_order(i) - 2)) { H->violation("center-out-of-range-after-accept", where + vf::fmt(" dim=%u c=%d", i, c[i])); return; }
  run_entries<float>(t, x.data(), c, where);
  run_entries<double>(t, x.data(), c, where);
  // arbitrary-order derivatives: none, one axis raised at a time up to order+1, all axes 2
  std::vector<unsigned> der(nd, 0);
  auto evf = t.get_evaluator<float>();
  g_sink = t.ndsplineeval_deriv(x.data(), c, nullptr); g_sink = t.ndsplineeval_deriv(x.data(), c, der.data());
  for (uint32_t i = 0; i < nd; i++) {
    for (unsigned p = 1; p <= t.get_order(i) + 1; p++) { der[i] = p; g_sink = t.ndsplineeval_deriv(x.data(), c, der.data()); g_sink = evf.ndsplineeval_deriv(x.data(), c, der.data()); H->count("evaluations", 2); }
    der[i] = 0;
  }
  std::fill(der.begin(), der.end(), 2u); g_sink = t.ndsplineeval_deriv(x.data(), c, der.data());
  { struct splinetable st; st.data = const_cast<Table*>(&t); g_sink = ndsplineeval(&st, x.data(), c, 0); g_sink = ndsplineeval_deriv(&st, x.data(), c, der.data());
    // the C gradient entry has no way to report a refusal (void): for tables beyond the SIMD layout it must neither let the C++ exception
    // cross the C boundary (that terminates the process: attributed to this case by the runner) nor touch memory outside the caller's buffer
    { Guarded<double> out(nd + 1, -7.25); ndsplineeval_gradient(&st, x.data(), c, out.data()); if (!out.intact(-7.25)) H->violation("gradient-wrote-outside-buffer", where); } }
}

// ---- table variants: how the knot padding came to exist
enum Variant { V_DIRECT = 0, V_FITSMEM, V_CONVOLVED, V_FIT, V_N };
static const char* vname[] = {"direct", "read_fits_mem", "convolved", "fit"};

static std::unique_ptr<Table> variant(const tg::TableSpec& s, int v) {
  std::unique_ptr<Table> t(new Table);
  if (v == V_FIT) {
    // a real (tiny) fit on the same orders/knots: padding allocated by fit.h
    size_t nd = s.dims.size();
    std::vector<std::vector<double>> coords(nd), knots(nd); std::vector<uint32_t> orders(nd), porder(1, 0);
    size_t rows = 1;
    for (size_t d = 0; d < nd; d++) {
      auto& D = s.dims[d]; knots[d] = D.knots; orders[d] = D.order;
      size_t npts = D.naxes() + 2; double a = D.knots[D.order], b = D.knots[D.naxes()];
      for (size_t i = 0; i < npts; i++) coords[d].push_back(a + (b - a) * (i + 0.5) / npts);
      rows *= npts;
    }
    photospline::ndsparse data(rows, nd);
    std::vector<double> w(rows, 1.0);
    std::vector<unsigned> ind(nd, 0);
    for (size_t r = 0; r < rows; r++) {
      size_t q = r; for (size_t d = nd; d-- > 0;) { ind[d] = q % coords[d].size(); q /= coords[d].size(); }
      data.insertEntry(1.0 + 0.01 * r, ind.data());
    }
    std::vector<double> smooth(1, 1e-3);
    t->fit(data, w, coords, orders, knots, smooth, porder, Table::no_monodim, false);
    return t;
  }
  tg::build(*t, s);
  if (v == V_FITSMEM) {
    auto buf = t->write_fits_mem();
    std::unique_ptr<Table> u(new Table);
    u->read_fits_mem(buf.first, buf.second);
    free(buf.first);
    return u;
  }
  if (v == V_CONVOLVED) {
    double kk[3] = {-0.25, 0.0, 0.5};
    t->convolve(s.dims.size() - 1, kk, 3);
  }
  return t;
}

static tg::TableSpec spec_of(const Table& t) {  // re-derive the spec from whatever the variant produced
  tg::TableSpec s;
  for (uint32_t i = 0; i < t.get_ndim(); i++) s.dims.push_back({t.get_order(i), std::vector<double>(t.get_knots(i), t.get_knots(i) + t.get_nknots(i))});
  return s;
}

static uint64_t count_for(uint32_t o, int c) { return 2 * o + 2 + (c == 0 ? 0 : (c == 1 ? 1 : 4)); }

static void run_low(int d, uint64_t idx) {
  // tables: orders from a list, knot pattern, count, variant; coordinates: full tensor of the special classes
  static const uint32_t ords1[6][3] = {{0, 0, 0}, {1, 1, 1}, {2, 2, 2}, {3, 3, 3}, {4, 4, 4}, {5, 5, 5}};
  static const uint32_t ordsN[6][3] = {{0, 1, 2}, {2, 2, 2}, {5, 0, 3}, {3, 3, 3}, {1, 4, 2}, {4, 5, 0}};
  bool small = (d == 3 && !g_thorough);   // quick d=3: counts {min, min+1} x provenances {direct, read_fits_mem}
  vf::Radix R{6, 3, (uint64_t)(small ? 2 : 3), (uint64_t)(small ? 2 : V_N)};
  uint64_t ntab = R.size();
  uint64_t tab = idx % ntab; uint64_t coordsel = idx / ntab;   // coordinate index slowest so that shards see all tables
  auto v = R.decode(tab);
  const uint32_t* o = (d == 1 ? ords1 : ordsN)[v[0]];
  tg::TableSpec s;
  static const int pats[3] = {tg::K_UNIFORM, tg::K_IRREGULAR, tg::K_DOUBLE};
  for (int i = 0; i < d; i++) s.dims.push_back({o[i], tg::make_knots(pats[(v[1] + i) % 3], o[i], count_for(o[i], v[2]), 0.5 * i)});
  if (v[3] == V_FIT) for (auto& D : s.dims) D.knots = tg::make_knots(tg::K_UNIFORM, D.order, D.knots.size());  // keep the fit well-posed
  s.coeffs = tg::make_coeffs(1, s.ncoeffs(), H->seed, tab);
  std::string tabkey = vf::fmt("d=%d:orders=%u%s:count=%s:%s", d, o[0], d > 1 ? vf::fmt(",%u%s", o[1], d > 2 ? vf::fmt(",%u", o[2]).c_str() : "").c_str() : "", v[2] == 0 ? "min" : (v[2] == 1 ? "min+1" : "min+4"), vname[v[3]]);
  static std::map<uint64_t, std::pair<std::unique_ptr<Table>, tg::TableSpec>> cache;
  uint64_t ckey = (uint64_t)d * 100000 + tab;
  auto it = cache.find(ckey);
  if (it == cache.end()) {
    H->hint(tabkey + ":build");
    auto t = variant(s, v[3]);
    tg::TableSpec s2 = spec_of(*t);
    it = cache.emplace(ckey, std::make_pair(std::move(t), s2)).first;
  }
  Table& t = *it->second.first; const tg::TableSpec& s2 = it->second.second;
  std::vector<double> x(d); std::string cls;
  uint64_t q = coordsel;
  for (int i = d - 1; i >= 0; i--) { auto C = special_axis(s2.dims[i], d >= 3 || (d == 2 && !g_thorough)); x[i] = C[q % C.size()].x; cls = std::string(C[q % C.size()].cls) + (cls.empty() ? "" : ",") + cls; q /= C.size(); }
  if (q != 0) return;  // index beyond this table's (smaller) class tensor
  H->hint("x=" + coarse(cls) + " [" + tabkey + "]");
  battery(t, x, "[" + tabkey + "] x=" + vf::vecstr(x) + " cls=" + cls);
  H->cls(tabkey + "|" + cls);
  if (H->want_sample()) H->sample("{\"table\":\"" + tabkey + "\",\"x_classes\":\"" + cls + "\"}");
}

static void run_hi(int d, uint64_t idx) {
  static const char* pn[] = {"all0", "all2", "all3", "mixed", "last5"};
  uint64_t npat = 5;
  uint64_t pat = idx % npat; uint64_t sel = idx / npat;
  std::vector<uint32_t> o(d);
  for (int i = 0; i < d; i++) o[i] = pat == 0 ? 0 : (pat == 1 ? 2 : (pat == 2 ? (d <= 7 ? 3 : 2) : (pat == 3 ? (uint32_t)(i % (d >= 8 ? 3 : 5)) : (i == d - 1 ? 5 : 1))));
  static std::map<uint64_t, std::pair<std::unique_ptr<Table>, tg::TableSpec>> cache;
  uint64_t ckey = (uint64_t)d * 100000 + pat;
  auto it = cache.find(ckey);
  std::string tabkey = vf::fmt("d=%d:orders=%s", d, pn[pat]);
  if (it == cache.end()) {
    tg::TableSpec s;
    for (int i = 0; i < d; i++) s.dims.push_back({o[i], tg::make_knots(i % 2 ? tg::K_IRREGULAR : tg::K_UNIFORM, o[i], count_for(o[i], i % 2), 0.25 * i)});
    s.coeffs = tg::make_coeffs(1, s.ncoeffs(), H->seed, pat);
    std::unique_ptr<Table> t(new Table); tg::build(*t, s);
    if (cache.size() > 2) cache.clear();
    it = cache.emplace(ckey, std::make_pair(std::move(t), s)).first;
  }
  Table& t = *it->second.first; const tg::TableSpec& s = it->second.second;
  // coordinate vectors: one axis special (every class), others interior; plus all axes the same special class
  auto C0 = special_axis(s.dims[0], false);
  size_t ncls = 15;  // the first 15 classes exist for every axis
  std::vector<double> x(d); std::string cls;
  if (sel < (uint64_t)d * ncls) {
    int ax = sel / ncls; size_t ci = sel % ncls;
    for (int i = 0; i < d; i++) { auto C = special_axis(s.dims[i], true); x[i] = (i == ax) ? C[ci].x : C[12].x; }
    cls = vf::fmt("axis%d=%s", ax, special_axis(s.dims[ax], true)[ci].cls);
  } else {
    size_t ci = sel - (uint64_t)d * ncls;
    for (int i = 0; i < d; i++) { auto C = special_axis(s.dims[i], true); x[i] = C[ci].x; }
    cls = vf::fmt("all=%s", special_axis(s.dims[0], true)[ci].cls);
  }
  H->hint("x=" + cls + " [" + tabkey + "]");
  battery(t, x, "[" + tabkey + "] x=" + vf::vecstr(x) + " cls=" + cls);
  H->cls(tabkey + "|" + cls);
}

int main(int argc, char** argv) {
  vf::Harness h("C05", argc, argv);
  H = &h;
  g_thorough = h.thorough;
  h.meta("level", "exploration");
  h.meta("rule", "complete walk: tables (6 order vectors x 3 knot-pattern rotations x 3 knot counts incl. the minimum x 4 provenances of the knot padding: direct construction, read_fits_mem, convolve, fit) x full tensor of special coordinate classes per axis (NaN, +-inf, +-DBL_MAX, denormal, every knot, +-1ulp around k0 / k[order] / k[naxes] / klast, far outside, interior, margins) for d=1..3; d=4..9: 5 order patterns x (every class on one axis, others interior) + (same class on all axes); each through lookup, operator(), C lookup, value and all derivative masks in float and double via members and evaluator objects, both gradient entry points with guard words, arbitrary-order derivatives up to order+1 and the C wrappers; oracle = ASan+UBSan with assertions enabled, guard words, refusal of gradient for d>=8, 30 s timer; distinct = (table key, coordinate class tuple)");
  h.meta("assumption", "sanitizer instrumentation of photospline's own code only (cfitsio/CHOLMOD uninstrumented)");
  h.meta("require_lookups_ok", "1000");
  h.meta("require_lookups_rejected", "1000");
  h.timeout_s = 30;
  uint64_t ntab = 6 * 3 * 3 * V_N;
  // class counts: d=1,2 use the full list (<= 22+nknots-2 <= 40 classes per axis); upper bound on the tensor size, surplus indices return immediately
  auto maxcls = [](bool reduced) -> uint64_t { return reduced ? 15 : 22 + 19; };
  h.add_space("d1", ntab * maxcls(false), [](uint64_t i) { run_low(1, i); });
  h.add_space("d2", ntab * maxcls(!h.thorough) * maxcls(!h.thorough), [](uint64_t i) { run_low(2, i); });
  // d=3: quick walks the 15^3 class tensor for the direct and read_fits_mem provenances of the 72 tables with counts {min,min+1} and provenances {direct, read_fits_mem}
  h.add_space("d3", (h.thorough ? ntab : 72) * 15 * 15 * 15, [](uint64_t i) { run_low(3, i); });
  for (int d = 4; d <= 9; d++) h.add_space(vf::fmt("d%d", d), 5 * (uint64_t)(d * 15 + 15), [d](uint64_t i) { run_hi(d, i); });
  return h.main();
}
