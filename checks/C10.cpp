// C10 — a monotonic fit is non-decreasing along the requested dimension for any data.
#include "engine/vf.hpp"
#include "engine/tablegen.hpp"
#include "ref/fit_ref.hpp"
#include "monoproblems.hpp"
#include <photospline/splinetable.h>
extern "C" {
int __real_walk_descents(cholmod_sparse*, cholmod_dense*, cholmod_dense*, cholmod_dense*, long*, long*, long*, long*, double*, int*, int, cholmod_common*);
static int g_walks = 0;
int __wrap_walk_descents(cholmod_sparse* a, cholmod_dense* b, cholmod_dense* x, cholmod_dense* xf, long* F, long* nF, long* H1, long* nH1, double* r, int* rc, int v, cholmod_common* c) {
  g_walks++; return __real_walk_descents(a, b, x, xf, F, nF, H1, nH1, r, rc, v, c);
}
}
typedef photospline::splinetable<> Table;
static vf::Harness* H;
using la::ld;

static std::vector<uint64_t> strides_of(const fitref::Problem& P) { size_t nd = P.ndim(); std::vector<uint64_t> s(nd); s[nd - 1] = 1; for (size_t d = nd - 1; d > 0; d--) s[d - 1] = s[d] * P.naxes(d); return s; }

// apply T' (suffix sums along dimension m) to a vector indexed like the coefficients
static void Tt_apply(const fitref::Problem& P, size_t m, std::vector<ld>& v) {
  auto st = strides_of(P); uint64_t na = P.naxes(m), nc = P.ncoef();
  for (uint64_t base = 0; base < nc; base++) { if ((base / st[m]) % na != 0) continue; for (uint64_t j = na - 1; j-- > 0;) v[base + j * st[m]] += v[base + (j + 1) * st[m]]; }
}

static void check_fit(const fitref::Problem& P, uint32_t mono, int nthreads, const std::string& key, const std::string& where) {
  size_t nd = P.ndim();
  setenv("OMP_NUM_THREADS", std::to_string(nthreads).c_str(), 1);
  photospline::ndsparse data(P.y.size(), nd);
  for (size_t r = 0; r < P.y.size(); r++) { std::vector<unsigned> ix(P.idx[r]); data.insertEntry(P.y[r], ix.data()); }
  for (size_t d = 0; d < nd; d++) data.ranges[d] = P.coords[d].size();
  Table t; int w0 = g_walks;
  try { t.fit(data, P.w, P.coords, P.order, P.knots, P.smooth, P.porder, mono, getenv("C10_VERBOSE") != nullptr); }
  catch (std::exception& e) { H->violation("monotonic-fit-threw:" + key, where + " " + e.what()); return; }
  bool walked = g_walks > w0; if (walked) H->count("fits_that_entered_the_line_search");
  H->count("evaluations");
  uint64_t nc = P.ncoef(); std::vector<float> c(t.get_coefficients(), t.get_coefficients() + nc);
  auto st = strides_of(P); uint64_t na = P.naxes(mono);
  // (1) coefficients non-decreasing along the monotonic axis on every fibre — exact float comparison
  bool active = false; ld cmax = 1e-30;
  for (uint64_t i = 0; i < nc; i++) { if (!std::isfinite(c[i])) { H->violation("non-finite-coefficient:" + key, where); return; } cmax = std::max(cmax, fabsl((ld)c[i])); }
  for (uint64_t i = 0; i < nc; i++) { uint64_t j = (i / st[mono]) % na; if (j == 0) continue; if (c[i] < c[i - st[mono]]) { H->violation("coefficients-decrease-along-monotonic-dimension:" + key, where + vf::fmt(" index %llu: %.9g after %.9g", (unsigned long long)i, (double)c[i], (double)c[i - st[mono]])); return; } if (c[i] == c[i - st[mono]]) active = true; }
  if (active) H->count("fits_with_active_constraints");
  // (2) derivative along the axis is non-negative on a grid covering every knot interval of the supported region
  { std::vector<ref::DimView> v; for (size_t d = 0; d < nd; d++) v.push_back({P.knots[d].data(), P.knots[d].size(), P.order[d]});
    std::vector<double> x(nd); std::vector<int> cen(nd); std::vector<unsigned> der(nd, 0); der[mono] = 1;
    for (size_t d = 0; d < nd; d++) x[d] = P.knots[d][P.order[d]] + 0.41 * (P.knots[d][P.naxes(d)] - P.knots[d][P.order[d]]);
    for (uint64_t j = P.order[mono]; j < P.naxes(mono); j++) for (double f : {0.03, 0.5, 0.97}) {
      x[mono] = P.knots[mono][j] + f * (P.knots[mono][j + 1] - P.knots[mono][j]);
      if (!t.searchcenters(x.data(), cen.data())) continue;
      double dv = t.ndsplineeval<double>(x.data(), cen.data(), 1 << mono);
      ref::EvalResult r = ref::full_eval(v, c.data(), x.data(), der.data());
      if (dv < -(double)(64 * 1.2e-7L * r.mag + 1e-30L)) { H->violation("negative-derivative-along-monotonic-dimension:" + key, where + vf::fmt(" x=%s derivative %.6g", vf::vecstr(x).c_str(), dv)); break; }
    } }
  // optimality certificate: KKT conditions of min 1/2 t'(T'NT)t - (T'r)'t, t >= 0, with c = T t
  fitref::Solution S = fitref::solve(P);
  if (!S.spd || !(S.kappa <= 1e8L) || nc > 800) { H->count("ill_posed_or_large_run_for_safety_only"); return; }
  H->count("asserted_fits");
  ld tscale = (8 * 1.2e-7L + 200 * S.kappa * 2.3e-16L);
  bool other_smoothing = false; for (size_t d = 0; d < nd; d++) if (d != mono && P.smooth[d] != 0) other_smoothing = true;
  // (3) inactive constraint => same coefficients as the unconstrained minimiser (the property's own words: asserted whether or not the
  // solver reached the constrained minimum, which is what the certificate further down looks at)
  bool inactive = true; for (uint64_t i = 0; i < nc && inactive; i++) { uint64_t j = (i / st[mono]) % na; ld ti = j == 0 ? S.c[i] : S.c[i] - S.c[i - st[mono]]; if (!(ti > 1e-3L * cmax)) inactive = false; }
  if (inactive) { H->count("inactive_constraint_checks"); for (uint64_t i = 0; i < nc; i++) if (fabsl((ld)c[i] - S.c[i]) > 4 * tscale * cmax * (ld)na) { H->violation(std::string("inactive-constraint-but-different-from-unconstrained-fit:") + (other_smoothing ? "smoothing-in-a-non-monotonic-dimension:" : "") + key, where + vf::fmt(" coefficient %llu: %.9g vs %.9g", (unsigned long long)i, (double)c[i], (double)S.c[i])); break; } }
  // The certificate uses the objective AS IMPLEMENTED: in the increments t (c = T t) the data term is T'FT, the penalty of the
  // monotonic dimension is T'P T, and the penalties of the OTHER dimensions are applied to t directly (identity where T'T would
  // stand).  For one dimension, or when only the monotonic dimension is smoothed, this is the objective of the property.
  std::vector<ld> tv(nc), g(nc, 0), gabs(nc, 0);
  for (uint64_t i = 0; i < nc; i++) { uint64_t j = (i / st[mono]) % na; tv[i] = j == 0 ? (ld)c[i] : (ld)c[i] - (ld)c[i - st[mono]]; }
  { std::vector<ld> v(nc), va(nc);   // T'( (F + lambda_m P_m) c - r )
    for (uint64_t i = 0; i < nc; i++) { ld s = -S.rhs[i], a = fabsl(S.rhs[i]); for (uint64_t j = 0; j < nc; j++) { ld m = S.Ndata(i, j) + (S.pen[mono].n ? (ld)P.smooth[mono] * S.pen[mono](i, j) : 0); s += m * (ld)c[j]; a += fabsl(m * (ld)c[j]); } v[i] = s; va[i] = a; }
    Tt_apply(P, mono, v); Tt_apply(P, mono, va);
    for (uint64_t i = 0; i < nc; i++) { g[i] = v[i]; gabs[i] = va[i]; } }
  for (size_t d = 0; d < nd; d++) if (d != mono && S.pen[d].n) for (uint64_t i = 0; i < nc; i++) for (uint64_t j = 0; j < nc; j++) { ld m = (ld)P.smooth[d] * S.pen[d](i, j) * tv[j]; g[i] += m; gabs[i] += fabsl(m); }
  for (uint64_t i = 0; i < nc; i++) {
    ld ti = tv[i];
    ld tol = 64 * tscale * gabs[i] * (ld)na + 4 * (ld)nc * 2.2e-16L * 1e5L;   // rounding of the float coefficients + the solver's own stopping tolerance (n*eps*1e5, absolute)
    bool positive = ti > 8 * tscale * cmax;
    if (positive ? fabsl(g[i]) > tol : g[i] < -tol) {
      // optimality of the solver is C11's property (the same systems are fed to every solver there); here it is only counted,
      // and the property-level oracles below are skipped for a fit that is not the minimiser
      H->count("fits_not_at_the_constrained_minimum_(reported_by_C11)"); H->note("not the constrained minimiser: " + where + vf::fmt(" increment %llu = %.6g, gradient %.6g (tolerance %.3g)", (unsigned long long)i, (double)ti, (double)g[i], (double)tol)); return; }
  }
  // brute-force cross-check of the certificate on small problems
  if (nc <= 10 && !other_smoothing) {
    la::Mat NT(nc, nc); std::vector<ld> rT = S.rhs; Tt_apply(P, mono, rT);
    for (uint64_t col = 0; col < nc; col++) { // column of N T: N applied to T e_col, then T'
      std::vector<ld> e(nc, 0); uint64_t j0 = (col / st[mono]) % na; for (uint64_t j = j0; j < na; j++) e[col + (j - j0) * st[mono]] = 1;
      std::vector<ld> Ne(nc, 0); for (uint64_t i = 0; i < nc; i++) for (uint64_t k = 0; k < nc; k++) Ne[i] += S.N(i, k) * e[k];
      Tt_apply(P, mono, Ne); for (uint64_t i = 0; i < nc; i++) NT(i, col) = Ne[i];
    }
    la::NnlsRef R = la::nnls_bruteforce(NT, rT);
    if (R.ok) { H->count("bruteforce_crosschecks"); std::vector<ld> cs(nc, 0); for (uint64_t i = 0; i < nc; i++) { uint64_t j = (i / st[mono]) % na; cs[i] = R.x[i] + (j ? cs[i - st[mono]] : 0); }
      for (uint64_t i = 0; i < nc; i++) if (fabsl((ld)c[i] - cs[i]) > 64 * tscale * cmax * (ld)na) { H->count("fits_not_at_the_constrained_minimum_(reported_by_C11)"); H->note("differs from the brute-force optimum: " + where + vf::fmt(" coefficient %llu: fit %.9g optimum %.9g", (unsigned long long)i, (double)c[i], (double)cs[i])); break; } }
  }
  H->cls(key + (active ? "|active" : "|inactive") + (walked ? "|walked" : ""));
}

// exhaustive data lattice in one dimension
static void run_lattice(uint64_t idx) {
  uint64_t di = idx % 6561; uint64_t r = idx / 6561; uint32_t order = 1 + r % 2; double lam = (r / 2) % 2 ? 1e-2 : 0.0; int nthreads = (r / 4) % 2 ? 3 : 1;
  fitref::Problem P; P.order = {order}; size_t nb = 5 + (order == 2);
  P.knots.push_back(tg::make_knots(tg::K_UNIFORM, order, nb + order + 1)); P.coords.push_back(mp::pts(P.knots[0], order, 8));
  static const double V[3] = {0, 1, 3};
  uint64_t q = di; for (unsigned i = 0; i < 8; i++) { P.idx.push_back({i}); P.y.push_back(V[q % 3]); q /= 3; P.w.push_back(1.0); }
  P.smooth = {lam}; P.porder = {1};
  std::string where = vf::fmt("[lattice order=%u lambda=%g threads=%d y=%s]", order, lam, nthreads, vf::vecstr(P.y).c_str());
  H->hint(vf::fmt("lattice order=%u lambda=%g", order, lam));
  check_fit(P, 0, nthreads, vf::fmt("d=1:lattice:order=%u", order), where);
  if (H->want_sample()) H->sample("{\"case\":\"" + where + "\"}");
}

static void run_nd(uint64_t idx) {
  mp::NdCase C = mp::nd_case(idx, H->seed);
  if (!C.valid) return;
  H->hint(C.where);
  check_fit(C.P, C.mono, C.nthreads, vf::fmt("d=%d:data=%s", C.d, mp::DN[C.dk]), C.where);
}


// data that leave part of the monotonic axis uncovered: there the fit is determined by the penalty alone, increments whose
// right-hand side is zero start out bound in the solver and must be released for the constraint to be inactive
static void run_gaps(uint64_t idx) {
  static const vf::Radix R{3, 2, 3, 4, 3, 3, 2};
  auto v = R.decode(idx);
  int shape = v[0]; uint32_t po = 1 + v[1]; uint32_t order = 1 + v[2]; int cov = v[3], fn = v[4]; static const double LAM[] = {1e-2, 1, 100}; double lam = LAM[v[5]]; int nthreads = v[6] ? 3 : 1;
  if (po > order) return;
  int d = shape == 0 ? 1 : 2; uint32_t mono = shape == 2 ? 1 : 0;
  fitref::Problem P;
  for (int i = 0; i < d; i++) { uint32_t o = (uint32_t)i == mono ? order : 2; size_t nb = (uint32_t)i == mono ? 8 : 3; P.order.push_back(o); P.knots.push_back(tg::make_knots(tg::K_UNIFORM, o, nb + o + 1, 0.2 * i)); P.coords.push_back(mp::pts(P.knots[i], o, (uint32_t)i == mono ? 16 : 4)); P.smooth.push_back((uint32_t)i == mono ? lam : 0.0); P.porder.push_back((uint32_t)i == mono ? po : 1); }
  static const char* CN[] = {"lower-half-only", "lower-third-only", "upper-half-only", "both-ends-only"}; static const char* FN[] = {"linear", "quadratic", "step"};
  size_t nm = P.coords[mono].size(), no = d == 2 ? P.coords[1 - mono].size() : 1;
  for (unsigned a = 0; a < nm; a++) {
    double u = (a + 0.5) / nm; bool covered = cov == 0 ? u < 0.5 : (cov == 1 ? u < 0.34 : (cov == 2 ? u > 0.5 : (u < 0.3 || u > 0.7)));
    if (!covered) continue;
    for (unsigned b = 0; b < no; b++) { std::vector<unsigned> ix(d); ix[mono] = a; if (d == 2) ix[1 - mono] = b; P.idx.push_back(ix); double y = fn == 0 ? 1 + 3 * u : (fn == 1 ? 0.5 + 4 * u * u : (u < 0.25 ? 1.0 : 2.5)); P.y.push_back(y * (1 + 0.25 * b)); P.w.push_back(1.0); }
  }
  std::string where = vf::fmt("[gaps d=%d monodim=%u order=%u penalty-order=%u coverage=%s data=%s lambda=%g threads=%d]", d, mono, order, po, CN[cov], FN[fn], lam, nthreads);
  H->hint(where);
  check_fit(P, mono, nthreads, vf::fmt("d=%d:gaps:%s", d, CN[cov]), where);
}

int main(int argc, char** argv) {
  vf::Harness h("C10", argc, argv);
  H = &h;
  h.meta("level", "exploration");
  h.meta("rule", "complete walk: (a) one-dimensional data lattice: EVERY y in {0,1,3}^8 (6561 data sets) x orders {1,2} x lambda {0,1e-2} x worker counts {1,3}; (b) d=1..3 x every monotonic dimension x 4 order vectors (orders 1..4) x 8 data patterns (increasing, decreasing, constant, oscillating, spike, noisy, all negative, all zero) x {unit, seeded} weights x 3 smoothing strengths x {dense, sparse} x worker counts {1,3}; (c) gaps: d=1 and d=2 (either monotonic dimension) x penalty order {1,2} x order {1,2,3} x data covering only the lower half / lower third / upper half / both ends of the monotonic axis x {linear, quadratic, step} increasing data x lambda {1e-2,1,100} along the monotonic dimension x worker counts {1,3}; oracle: stored coefficients non-decreasing on every fibre (exact float comparison), derivative from ndsplineeval >= -rounding on a grid over every supported knot interval, equality with the unconstrained reference minimiser when that is itself non-negative and non-decreasing (constraint inactive); the KKT certificate / brute-force optimum of the constrained problem is computed too but only counted here, because optimality of the solver is property C11, whose check feeds these very systems to every solver; distinct = (dimension/data class, constraint active?, line search entered?)");
  h.meta("assumption", "reference: ref/fit_ref.hpp + ref/linalg_ref.hpp; certificate asserted for condition <= 1e8 and <= 800 coefficients");
  h.meta("require_fits_that_entered_the_line_search", "20");
  h.meta("require_fits_with_active_constraints", "500");
  h.meta("require_asserted_fits", "2000");
  h.meta("deadline_quick", "900"); h.meta("deadline_thorough", "2400");
  h.timeout_s = 60;
  h.add_space("lattice", 6561ull * (h.thorough ? 8 : 4), run_lattice);
  h.add_space("nd", mp::ND_SIZE, run_nd);
  h.add_space("gaps", 3ull * 2 * 3 * 4 * 3 * 3 * 2, run_gaps);
  return h.main();
}
