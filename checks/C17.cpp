// C17 — grid evaluation agrees with pointwise evaluation.
#include "engine/vf.hpp"
#include "engine/tablegen.hpp"
#include "engine/evalspace.hpp"
#include "ref/bspline_ref.hpp"
#include <photospline/cinter/splinetable.h>
using namespace es;
static vf::Harness* H;

static const char* GN[] = {"sorted-interior", "unsorted", "repeated", "margins", "outside-both-sides", "on-knots", "single-point"};
static std::vector<double> grid_axis(int kind, const tg::DimSpec& D) {
  const auto& k = D.knots; size_t n = k.size(), na = D.naxes(); uint32_t o = D.order; std::vector<double> g;
  double a = k[o], b = k[na];
  switch (kind) {
    case 0: for (int i = 0; i < 5; i++) g.push_back(a + (b - a) * (i + 0.5) / 5); break;
    case 1: g = {a + 0.8 * (b - a), a + 0.1 * (b - a), a + 0.55 * (b - a), k[0] + 0.5 * (k[1] - k[0])}; break;
    case 2: g = {a + 0.3 * (b - a), a + 0.3 * (b - a), a + 0.7 * (b - a), a + 0.3 * (b - a)}; break;
    case 3: g = {k[0] + 0.25 * (k[1] - k[0]), k[0] + 0.9 * (k[o ? o : 1] - k[0]), k[n - 2] + 0.6 * (k[n - 1] - k[n - 2]), a + 0.5 * (b - a)}; break;
    case 4: g = {k[0] - 1.0, k[0], a + 0.4 * (b - a), k[n - 1], k[n - 1] + 2.5, 1e30}; break;
    case 5: for (size_t j = 1; j + 1 < n; j++) g.push_back(k[j]); break;
    default: g = {a + 0.37 * (b - a)};
  }
  return g;
}

static void run_case(int d, uint64_t idx) {
  // order vector, coefficient kind, grid kinds
  static const uint32_t OS[5][4] = {{2, 2, 2, 2}, {0, 1, 2, 3}, {3, 1, 0, 2}, {5, 2, 1, 0}, {1, 4, 2, 1}};
  uint64_t ngk = 7; uint64_t ncomb = d <= 2 ? (d == 1 ? ngk : ngk * ngk) : (uint64_t)d * ngk;
  uint64_t comb = idx % ncomb; uint64_t r = idx / ncomb; int ck = r % 4; int op = (r / 4) % 5; int cnt = (r / 20) % 2;
  tg::TableSpec s;
  for (int i = 0; i < d; i++) { uint32_t o = OS[op][i]; s.dims.push_back({o, tg::make_knots(i % 2 ? tg::K_IRREGULAR : tg::K_UNIFORM, o, 2 * o + 2 + (cnt ? 3 : 1) + i % 2, 0.5 * i)}); }
  uint64_t nc = s.ncoeffs(); s.coeffs = tg::make_coeffs(1, nc, H->seed, idx);
  auto st = std::vector<uint64_t>(d); st[d - 1] = 1; for (int i = d - 1; i > 0; i--) st[i - 1] = st[i] * s.dims[i].naxes();
  if (ck == 1) for (uint64_t j = 0; j < nc; j++) if (vf::mix64(j * 31 + idx) % 2) s.coeffs[j] = 0.f;                     // 50% zeros
  if (ck == 2) { std::fill(s.coeffs.begin(), s.coeffs.end(), 0.f); s.coeffs[(idx * 13) % nc] = 2.5f; }                      // a single non-zero
  if (ck == 3) for (uint64_t j = 0; j < nc; j++) for (int i = 0; i < d; i++) { uint64_t ji = (j / st[i]) % s.dims[i].naxes(); if (ji == 0 || ji + 1 == s.dims[i].naxes()) s.coeffs[j] = 0.f; }   // zero edge slabs
  std::vector<int> gk(d, 0);
  if (d == 1) gk[0] = comb; else if (d == 2) { gk[0] = comb / ngk; gk[1] = comb % ngk; } else { gk[comb / ngk] = comb % ngk; }
  std::vector<std::vector<double>> coords; std::string gl;
  for (int i = 0; i < d; i++) { coords.push_back(grid_axis(gk[i], s.dims[i])); gl += std::string(i ? "," : "") + GN[gk[i]]; }
  static const char* CN[] = {"dense", "half-zero", "single-nonzero", "zero-edge-slabs"};
  std::string where = vf::fmt("[d=%d orders=%d count=%d coeffs=%s grids=%s]", d, op, cnt, CN[ck], gl.c_str());
  H->hint(where);
  Table t; tg::build(t, s);
  std::unique_ptr<photospline::ndsparse> nd;
  bool viaC = idx % 4 == 3; struct ndsparse* cnd = nullptr;
  try {
    if (viaC) { struct splinetable stt; stt.data = &t; std::vector<const double*> cp; std::vector<uint32_t> nn; for (auto& c : coords) { cp.push_back(c.data()); nn.push_back(c.size()); } if (splinetable_grideval(&stt, cp.data(), nn.data(), &cnd) != 0 || !cnd) { H->violation("C-grideval-failed", where); return; } }
    else nd = t.grideval(coords);
  } catch (std::exception& e) { H->violation("grideval-threw", where + " " + e.what()); return; }
  const struct ndsparse* R = viaC ? cnd : nd.get();
  std::string key = std::string(CN[ck]);
  // densify
  bool bad = false;
  if (R->ndim != (size_t)d) { H->violation("result-dimension", where); bad = true; }
  uint64_t total = 1; for (int i = 0; i < d && !bad; i++) { if (R->ranges[i] != coords[i].size()) { H->violation("index-ranges-are-not-the-grid-lengths:" + key, where + vf::fmt(" dim %d: range %u grid %zu", i, R->ranges[i], coords[i].size())); bad = true; } total *= coords[i].size(); }
  std::vector<double> dense(total, 0.0); std::vector<char> seen(total, 0);
  for (size_t r = 0; r < R->rows && !bad; r++) { uint64_t pos = 0; for (int i = 0; i < d; i++) { if (R->i[i][r] >= coords[i].size()) { H->violation("index-out-of-range:" + key, where); bad = true; break; } pos = pos * coords[i].size() + R->i[i][r]; } if (bad) break; if (seen[pos]) { H->violation("duplicate-index-tuple:" + key, where); bad = true; break; } seen[pos] = 1; dense[pos] = R->x[r]; }
  if (!bad) {
    auto views = s.views(); std::vector<double> x(d); std::vector<int> c(d); std::vector<size_t> ix(d, 0);
    for (uint64_t pos = 0; pos < total; pos++) {
      uint64_t q = pos; for (int i = d - 1; i >= 0; i--) { ix[i] = q % coords[i].size(); q /= coords[i].size(); x[i] = coords[i][ix[i]]; }
      bool inside = true; for (int i = 0; i < d; i++) if (!(x[i] > s.dims[i].knots.front() && x[i] < s.dims[i].knots.back())) inside = false;
      if (!inside) { H->count("grid_points_outside_the_knot_range"); continue; }
      if (!t.searchcenters(x.data(), c.data())) { H->violation("lookup-fails-strictly-inside", where); break; }
      double pw = t.ndsplineeval<double>(x.data(), c.data(), 0);
      ref::EvalResult rr = ref::full_eval(views, s.coeffs.data(), x.data(), nullptr);
      double tol = 64 * 2.3e-16 * (double)rr.mag * (rr.nterms + 8 * d) + 1e-300;
      H->count("evaluations"); if (!seen[pos]) H->count("unlisted_points_checked");
      if (fabs(dense[pos] - pw) > tol) {
        bool grid_ok = fabs(dense[pos] - (double)rr.value) <= tol, pw_ok = fabs(pw - (double)rr.value) <= tol;
        if (grid_ok && !pw_ok) { H->count("attributed_to_C01"); continue; }   // pointwise evaluation is the one that is wrong: reported by C01
        H->violation(std::string(seen[pos] ? "grid-value-differs-from-pointwise:" : "unlisted-grid-point-is-not-zero:") + key, where + vf::fmt(" x=%s grid %.17g pointwise %.17g reference %.17g", vf::vecstr(x).c_str(), dense[pos], pw, (double)rr.value));
        break;
      }
    }
  }
  if (viaC) ndsparse_destroy(cnd);
  H->cls(vf::fmt("d=%d|%s|%s", d, CN[ck], gl.c_str()));
  if (H->want_sample()) H->sample("{\"case\":\"" + where + "\",\"rows\":" + std::to_string(viaC ? 0 : nd->rows) + "}");
}

int main(int argc, char** argv) {
  vf::Harness h("C17", argc, argv);
  H = &h;
  h.meta("level", "exploration");
  h.meta("rule", "complete walk: d=1..4 x 5 mixed order vectors (orders 0..5) x 2 knot counts x {dense, half zeros, single non-zero, zero edge slabs} coefficient arrays x grids per axis from {sorted interior, unsorted, repeated abscissae, both margins, outside the knot range on both sides incl. 1e30 and the end knots, exactly on every knot, single point}: full cross product of grid kinds for d<=2, one special axis at a time for d=3,4; every fourth case through the C wrapper (splinetable_grideval + ndsparse_destroy); oracle: index ranges equal the grid lengths, no duplicate index tuples, and for EVERY grid point strictly inside the knot range the densified value equals pointwise ndsplineeval<double> within rounding (unlisted points count as zero); a mismatch where the grid value agrees with the long-double reference and the pointwise value does not is attributed to C01; distinct = (dimension, coefficient kind, grid kinds)");
  h.meta("assumption", "reference for blame attribution: ref/bspline_ref.hpp");
  h.meta("require_unlisted_points_checked", "50");
  h.meta("require_grid_points_outside_the_knot_range", "50");
  h.timeout_s = 60;
  for (int d = 1; d <= 4; d++) { uint64_t ncomb = d <= 2 ? (d == 1 ? 7 : 49) : (uint64_t)d * 7; h.add_space(vf::fmt("d%d", d), ncomb * 4 * 5 * 2, [d](uint64_t i) { run_case(d, i); }); }
  return h.main();
}
