// C13 — fit rejects inconsistent arguments instead of corrupting memory (deviation enumeration around valid baselines).
#include "engine/vf.hpp"
#include "engine/tablegen.hpp"
#include <photospline/splinetable.h>
#include <photospline/cinter/splinetable.h>
#include <climits>
typedef photospline::splinetable<> Table;
static vf::Harness* H;

struct Args {
  size_t ndim = 0, rows = 0;
  std::vector<std::vector<unsigned>> idx;   // [dim][row]
  std::vector<unsigned> ranges; std::vector<double> y;
  std::vector<double> weights; std::vector<std::vector<double>> coords, knots; std::vector<uint32_t> orders, porder; std::vector<double> smooth; uint32_t monodim = Table::no_monodim;
};
static Args baseline(int d) {
  Args a; a.ndim = d;
  static const uint32_t O[3] = {2, 1, 3};
  size_t rows = 1;
  for (int i = 0; i < d; i++) {
    uint32_t o = O[i]; a.orders.push_back(o); size_t nb = o + 3; a.knots.push_back(tg::make_knots(i % 2 ? tg::K_IRREGULAR : tg::K_UNIFORM, o, nb + o + 1, 0.25 * i));
    size_t n = nb + 2; std::vector<double> x; double lo = a.knots[i][o], hi = a.knots[i][nb]; for (size_t j = 0; j < n; j++) x.push_back(lo + (hi - lo) * (j + 0.5) / n);
    a.coords.push_back(x); a.ranges.push_back(n); rows *= n; a.smooth.push_back(0.1 * (i + 1)); a.porder.push_back(1);
  }
  a.rows = rows; a.idx.assign(d, std::vector<unsigned>(rows));
  for (size_t r = 0; r < rows; r++) { size_t q = r; for (int i = d - 1; i >= 0; i--) { a.idx[i][r] = q % a.ranges[i]; q /= a.ranges[i]; } a.y.push_back(1.0 + 0.1 * (r % 7)); a.weights.push_back(1.0 + (r % 3)); }
  return a;
}

struct Dev { std::string name; std::function<void(Args&)> apply; int expect; /* 1 must throw, 0 either, 2 penalty-above-order (throw or vanishing) */ int dim; };
static std::vector<Dev> deviations(int d) {
  std::vector<Dev> D;
  auto add = [&](const std::string& n, int expect, int dim, std::function<void(Args&)> f) { D.push_back({n, f, expect, dim}); };
  add("weights-short", 1, -1, [](Args& a) { if (!a.weights.empty()) a.weights.pop_back(); });
  add("weights-long", 1, -1, [](Args& a) { a.weights.push_back(1); });
  add("weights-empty", 1, -1, [](Args& a) { a.weights.clear(); });
  add("coords-count-1", 1, -1, [](Args& a) { a.coords.pop_back(); });
  add("coords-count+1", 1, -1, [](Args& a) { a.coords.push_back(a.coords[0]); });
  add("orders-count-1", 1, -1, [](Args& a) { a.orders.pop_back(); });
  add("orders-count+1", 1, -1, [](Args& a) { a.orders.push_back(1); });
  add("knots-count-1", 1, -1, [](Args& a) { a.knots.pop_back(); });
  add("knots-count+1", 1, -1, [](Args& a) { a.knots.push_back(a.knots[0]); });
  add("smoothing-empty", 1, -1, [](Args& a) { a.smooth.clear(); });
  add("smoothing-count+1", 1, -1, [](Args& a) { a.smooth.push_back(1); });
  add("smoothing-single", 0, -1, [](Args& a) { a.smooth.resize(1); });
  add("penalty-empty", 1, -1, [](Args& a) { a.porder.clear(); });
  add("penalty-count+1", 1, -1, [](Args& a) { a.porder.push_back(1); });
  add("penalty-single", 0, -1, [](Args& a) { a.porder.resize(1); });
  add("monodim=ndim", 1, -1, [](Args& a) { a.monodim = a.ndim; });
  add("monodim=ndim+7", 1, -1, [](Args& a) { a.monodim = a.ndim + 7; });
  add("monodim=2^31", 1, -1, [](Args& a) { a.monodim = 1u << 31; });
  add("monodim=0", 0, -1, [](Args& a) { a.monodim = 0; });
  add("rows=0", 1, -1, [](Args& a) { a.rows = 0; a.weights.clear(); });
  add("weights-all-zero", 0, -1, [](Args& a) { for (auto& w : a.weights) w = 0; });
  add("weights-NaN", 0, -1, [](Args& a) { if (!a.weights.empty()) a.weights[0] = std::numeric_limits<double>::quiet_NaN(); });
  add("data-NaN", 0, -1, [](Args& a) { a.y[0] = std::numeric_limits<double>::quiet_NaN(); });
  add("smoothing-zero", 0, -1, [](Args& a) { for (auto& s : a.smooth) s = 0; });
  add("smoothing-negative", 0, -1, [](Args& a) { if (!a.smooth.empty()) a.smooth[0] = -1; });
  for (int i = 0; i < d; i++) {
    std::string p = vf::fmt(":dim%d", i);
    add("coords-one-short" + p, 1, i, [i](Args& a) { if (!a.coords[i].empty()) a.coords[i].pop_back(); });
    add("coords-empty" + p, 1, i, [i](Args& a) { a.coords[i].clear(); });
    add("coords-one-extra" + p, 0, i, [i](Args& a) { a.coords[i].push_back(a.coords[i].empty() ? 0.0 : a.coords[i].back() + 0.01); });
    add("knots-unsorted" + p, 1, i, [i](Args& a) { if (a.knots[i].size() >= 4) std::swap(a.knots[i][1], a.knots[i][3]); });
    add("knots-reversed" + p, 1, i, [i](Args& a) { std::reverse(a.knots[i].begin(), a.knots[i].end()); });
    add("knots-order+1" + p, 1, i, [i](Args& a) { a.knots[i].resize(a.orders[i] + 1); });
    add("knots-order+2" + p, 1, i, [i](Args& a) { a.knots[i].resize(a.orders[i] + 2); });
    add("knots-2order+1" + p, 1, i, [i](Args& a) { a.knots[i].resize(2 * a.orders[i] + 1); });
    add("knots-minimal-2order+2" + p, 0, i, [i](Args& a) { a.knots[i].resize(2 * a.orders[i] + 2); });
    add("knots-single" + p, 1, i, [i](Args& a) { a.knots[i].resize(1); });
    add("knots-empty" + p, 1, i, [i](Args& a) { a.knots[i].clear(); });
    add("knots-NaN-inside" + p, 0, i, [i](Args& a) { if (a.knots[i].size() >= 3) a.knots[i][2] = std::numeric_limits<double>::quiet_NaN(); });
    add("knots-all-equal" + p, 0, i, [i](Args& a) { for (auto& k : a.knots[i]) k = 1.0; });
    add("order=0" + p, 0, i, [i](Args& a) { a.orders[i] = 0; a.porder[i] = 0; });
    add("order=5" + p, 1, i, [i](Args& a) { a.orders[i] = 5; });          // baseline has order+4 knots: too few for order 5
    add("order=1000" + p, 1, i, [i](Args& a) { a.orders[i] = 1000; });
    add("order=2^31" + p, 1, i, [i](Args& a) { a.orders[i] = 1u << 31; });
    add("order=UINT_MAX" + p, 1, i, [i](Args& a) { a.orders[i] = UINT_MAX; });
    for (int dp = 0; dp <= 3; dp++) add(vf::fmt("penalty=order+%d", dp) + p, dp ? 2 : 0, i, [i, dp](Args& a) { a.porder[i] = a.orders[i] + dp; });
    add("penalty=0" + p, 0, i, [i](Args& a) { a.porder[i] = 0; });
    add("penalty=UINT_MAX" + p, 2, i, [i](Args& a) { a.porder[i] = UINT_MAX; });
    add("index=range" + p, 1, i, [i](Args& a) { if (a.rows) a.idx[i][a.rows / 2] = a.ranges[i]; });
    add("index=UINT_MAX" + p, 1, i, [i](Args& a) { a.idx[i][0] = UINT_MAX; });
    add("range-below-max-index" + p, 1, i, [i](Args& a) { a.ranges[i] -= 1; });
    add("range-larger-than-coords" + p, 1, i, [i](Args& a) { a.ranges[i] += 3; });
  }
  return D;
}

// The property's own list of inconsistencies, evaluated on the final argument set (deviations can cancel each other).
// returns 1 = inconsistent (must throw), 2 = only a penalty order above the spline order, 0 = consistent
static int inconsistency(const Args& a) {
  if (a.weights.size() != a.rows) return 1;
  if (a.coords.size() != a.ndim || a.orders.size() != a.ndim || a.knots.size() != a.ndim) return 1;
  if (!(a.smooth.size() == a.ndim || a.smooth.size() == 1)) return 1;
  if (!(a.porder.size() == a.ndim || a.porder.size() == 1)) return 1;
  if (a.monodim != Table::no_monodim && a.monodim >= a.ndim) return 1;
  if (a.rows == 0) return 1;
  for (size_t i = 0; i < a.ndim; i++) {
    for (size_t r = 0; r < a.rows; r++) if (a.idx[i][r] >= a.ranges[i] || a.idx[i][r] >= a.coords[i].size()) return 1;
    if (a.coords[i].size() < a.ranges[i]) return 1;   // the declared index range reaches beyond the coordinate vector
    for (size_t j = 1; j < a.knots[i].size(); j++) if (a.knots[i][j] < a.knots[i][j - 1]) return 1;
    if (a.knots[i].size() < 2 * (uint64_t)a.orders[i] + 2) return 1;
  }
  for (size_t i = 0; i < a.ndim; i++) { uint32_t p = a.porder.size() > 1 ? a.porder[i] : a.porder[0]; if (p > a.orders[i]) return 2; }
  return 0;
}

static bool wellformed(const Table& t) {
  if (t.ndim == 0) return false;
  for (uint32_t i = 0; i < t.ndim; i++) { if (t.naxes[i] != t.nknots[i] - t.order[i] - 1 || t.naxes[i] < (uint64_t)t.order[i] + 1) return false; }
  return true;
}

enum Out { THREW, RETURNED };
static Out call_fit(Table& t, Args& a, std::string& msg, std::vector<float>* coef = nullptr) {
  ::ndsparse nd; nd.rows = a.rows; nd.ndim = a.ndim; std::vector<unsigned*> ip; for (auto& v : a.idx) ip.push_back(v.data()); nd.i = ip.data(); nd.ranges = a.ranges.data(); nd.x = a.y.data();
  try { t.fit(nd, a.weights, a.coords, a.orders, a.knots, a.smooth, a.porder, a.monodim, false); }
  catch (std::exception& e) { msg = e.what(); return THREW; }
  if (coef) coef->assign(t.get_coefficients(), t.get_coefficients() + t.get_ncoeffs());
  return RETURNED;
}

static void judge(int d, const std::vector<const Dev*>& devs, bool populated, const std::string& space) {
  Args a = baseline(d); std::string name;
  // per-dimension deviations first, then the ones that change argument counts (so that the harness never indexes a removed slot)
  std::vector<const Dev*> ordered; for (auto dv : devs) if (dv->dim >= 0) ordered.push_back(dv); for (auto dv : devs) if (dv->dim < 0) ordered.push_back(dv);
  for (auto dv : ordered) dv->apply(a);
  for (auto dv : devs) name += (name.empty() ? "" : "+") + dv->name;
  int inc = inconsistency(a); bool any_must = inc == 1, any_pen = inc == 2;
  if (devs.size() == 1 && devs[0]->expect != 0 && inc != devs[0]->expect) H->violation("harness:deviation-table-disagrees-with-the-consistency-predicate", name);
  // coarse key: strip the dimension suffixes
  std::string ckey; { size_t p = 0; while (p < name.size()) { size_t q = name.find(":dim", p); if (q == std::string::npos) { ckey += name.substr(p); break; } ckey += name.substr(p, q - p); p = q + 5; } }
  std::string where = vf::fmt("[%s d=%d %s table] %s", space.c_str(), d, populated ? "populated" : "empty", name.c_str());
  H->hint(ckey + (populated ? ":populated" : ":empty"));
  Table t; std::vector<float> pre;
  Args base = baseline(d);
  if (populated) { std::string m; if (call_fit(t, base, m, &pre) != RETURNED) { H->violation("harness:baseline-fit-failed", where + " " + m); return; } }
  // keep a twin of the pre-image to compare with
  Table twin; if (populated) { std::string m; Args b2 = baseline(d); call_fit(twin, b2, m); }
  std::string msg; std::vector<float> coef;
  Out o = call_fit(t, a, msg, &coef);
  H->count("evaluations"); H->count(o == THREW ? "rejected" : "accepted");
  H->cls(ckey + (populated ? "|populated" : "|empty") + (o == THREW ? "|threw" : "|returned"));
  if (o == THREW) {
    if (!populated) { if (t.get_ndim() != 0) H->violation("exception-but-table-modified:" + ckey, where + " (empty table now has ndim=" + std::to_string(t.get_ndim()) + "): " + msg); }
    else if (t.get_ndim() == 0 || !(t == twin)) H->violation("exception-but-table-modified:" + ckey, where + " (populated table no longer equals its pre-image): " + msg);
    return;
  }
  if (any_must) { H->violation("inconsistent-arguments-accepted:" + ckey, where); return; }
  if (!wellformed(t)) { H->violation("fit-returned-ill-formed-table:" + ckey, where); return; }
  if (any_pen && !any_must) {   // penalty order above the spline order was accepted: must act as a vanishing penalty
    Args z = baseline(d); for (auto dv : ordered) dv->apply(z);
    if (z.smooth.size() != z.ndim || z.porder.size() != z.ndim) return;
    for (size_t i = 0; i < z.ndim; i++) if (z.porder[i] > z.orders[i]) { z.smooth[i] = 0; z.porder[i] = 0; }
    Table tz; std::string m; std::vector<float> cz;
    if (call_fit(tz, z, m, &cz) == RETURNED) { bool same = cz.size() == coef.size(); for (size_t i = 0; same && i < cz.size(); i++) if (fabs((double)cz[i] - coef[i]) > 1e-4 * (1 + fabs((double)cz[i]))) same = false; if (!same) H->violation("penalty-above-order-neither-rejected-nor-vanishing:" + ckey, where); }
  }
}

static void judge_c(int d, const Dev& dv) {   // the C wrapper: every deviation expressible through its arguments
  Args a = baseline(d); dv.apply(a);
  if (a.weights.size() != a.rows || a.coords.size() != a.ndim || a.orders.size() != a.ndim || a.knots.size() != a.ndim || a.smooth.size() != a.ndim || a.porder.size() != a.ndim) return;   // C takes raw arrays of the implied lengths
  for (size_t i = 0; i < a.ndim; i++) if (a.coords[i].size() < a.ranges[i]) return;  // would make the harness itself hand over a short array
  struct splinetable st; st.data = nullptr; splinetable_init(&st);
  ::ndsparse nd; nd.rows = a.rows; nd.ndim = a.ndim; std::vector<unsigned*> ip; for (auto& v : a.idx) ip.push_back(v.data()); nd.i = ip.data(); nd.ranges = a.ranges.data(); nd.x = a.y.data();
  std::vector<const double*> cp, kp; std::vector<uint64_t> nk; for (size_t i = 0; i < a.ndim; i++) { cp.push_back(a.coords[i].data()); kp.push_back(a.knots[i].data()); nk.push_back(a.knots[i].size()); }
  H->hint("C:" + dv.name);
  int rc = splinetable_glamfit(&st, &nd, a.weights.data(), cp.data(), a.orders.data(), kp.data(), nk.data(), a.smooth.data(), a.porder.data(), a.monodim, false);
  H->count("evaluations");
  std::string ckey = dv.name.substr(0, dv.name.find(":dim"));
  if (dv.expect == 1 && rc == 0) H->violation("C-wrapper-accepted-inconsistent-arguments:" + ckey, vf::fmt("[C d=%d] %s", d, dv.name.c_str()));
  Table* t = static_cast<Table*>(st.data);
  if (rc != 0 && t && t->get_ndim() != 0) H->violation("C-wrapper-failure-left-table-modified:" + ckey, vf::fmt("[C d=%d] %s", d, dv.name.c_str()));
  H->cls("C|" + ckey + (rc ? "|nonzero" : "|zero"));
  splinetable_free(&st);
}

int main(int argc, char** argv) {
  vf::Harness h("C13", argc, argv);
  H = &h;
  h.meta("level", "fault_enumeration");
  h.meta("rule", "valid baseline fits in 1, 2 and 3 dimensions; deviation menu per argument (lengths off by one / empty / too many for weights, coordinate vectors, orders, knot vectors, smoothing, penalty; one coordinate vector short or empty; one knot vector unsorted, reversed, order+1, order+2, 2*order+1, minimal, single, empty, NaN inside, all equal; order 0, 5, 1000, 2^31, UINT_MAX; penalty order 0..order+3 and UINT_MAX; monodim ndim, ndim+7, 2^31; a data index equal to its range or UINT_MAX; ranges below the maximum index or above the coordinate length; rows = 0; NaN / zero weights and data) applied at every dimension position: all single deviations and all unordered pairs, on an empty and on a populated target table, through the C++ entry and (where expressible) the C wrapper; oracle under ASan/UBSan: returns or throws std::exception only; deviations the property names as inconsistent must throw and leave the table unchanged (empty stays empty, populated equals its pre-image); penalty order above the spline order must throw or act as a vanishing penalty; an accepted fit must produce a well-formed table; distinct = (deviation set, target state, outcome)");
  h.meta("assumption", "triples of deviations are not enumerated");
  h.meta("require_rejected", "500");
  h.meta("require_accepted", "50");
  h.meta("deadline_quick", "900"); h.meta("deadline_thorough", "2400");
  h.timeout_s = 60;
  for (int d = 1; d <= 3; d++) {
    auto D = std::make_shared<std::vector<Dev>>(deviations(d));
    size_t n = D->size();
    h.add_space(vf::fmt("single-d%d", d), n * 2, [d, D](uint64_t i) { judge(d, {&(*D)[i / 2]}, i % 2, "single"); });
    h.add_space(vf::fmt("C-d%d", d), n, [d, D](uint64_t i) { judge_c(d, (*D)[i]); });
    if (d <= 2 || h.thorough) h.add_space(vf::fmt("pairs-d%d", d), n * (n - 1) / 2, [d, D, n](uint64_t i) {
      size_t a = 0, rem = i; while (rem >= n - 1 - a) { rem -= n - 1 - a; a++; } size_t b = a + 1 + rem;
      judge(d, {&(*D)[a], &(*D)[b]}, false, "pair"); });
  }
  return h.main();
}
