// C12 — the parallel line search under every schedule: explicit-state exploration of the REAL walk_descents /
// evaluate_descent (compiled with engine/sched/shim.h) under the cooperative scheduler engine/sched/ms_sched.c.
// One case = one configuration (workers W, number of trial steps n_alpha, data variant); the case explores the
// complete reachable state graph of that configuration: every execution is a forked child that replays a choice
// prefix and then runs the default schedule to the end; the parent owns the visited-state set.
#include "engine/vf.hpp"
#include "engine/sched/ms_sched.h"
#include <cholmod.h>
#include <deque>
#include <unordered_set>
#include <sys/wait.h>
#include "cholesky_solve.h"   // from $(REPO)/src/fitter
static vf::Harness* H;

struct Config { int W, nalpha, variant; int spurious; int goto_env; };   // goto_env: the worker count comes from GOTO_NUM_THREADS (which takes precedence) while OMP_NUM_THREADS says something else
static const char* VN[] = {"improves-at-alpha=1", "improves-in-the-middle", "never-improves(bind-and-retry)"};

// ---- problem data: A = I so that the residual is |z-b|^2 - |b|^2 and the first improving step is controlled through b
struct Problem {
  cholmod_common c; cholmod_sparse* A; cholmod_dense *b, *x, *xF; std::vector<long> F, H1; long nF, nH1; double residual; int residual_calcs;
  std::vector<double> alphas;
};
static const double ALPHAS[] = {0.9, 0.8, 0.3, 0.2, 0.1, 0.05, 0.02};
static void build(Problem& P, const Config& cf) {
  cholmod_l_start(&P.c);
  int k = cf.nalpha - 2;            // trial steps strictly between 0 and 1
  long nF = k + 1;                  // one extra coordinate that never becomes infeasible
  P.nF = nF; P.A = cholmod_l_speye(nF, nF, CHOLMOD_REAL, &P.c); P.A->stype = 0;
  P.b = cholmod_l_zeros(nF, 1, CHOLMOD_REAL, &P.c); P.x = cholmod_l_zeros(nF, 1, CHOLMOD_REAL, &P.c); P.xF = cholmod_l_zeros(nF, 1, CHOLMOD_REAL, &P.c);
  double *x = (double*)P.x->x, *xF = (double*)P.xF->x, *b = (double*)P.b->x;
  for (long i = 0; i < nF; i++) { P.F.push_back(i); x[i] = 1.0; xF[i] = (i < k) ? 1.0 - 1.0 / ALPHAS[i] : 2.0; }
  // trial point for a step alpha (projected)
  auto trial = [&](double a, std::vector<double>& z) { z.resize(nF); for (long i = 0; i < nF; i++) { z[i] = (1 - a) * x[i] + a * xF[i]; if (z[i] < 0) z[i] = 0; } };
  std::vector<double> z;
  if (cf.variant == 0) trial(1.0, z);                                             // global minimum at alpha = 1
  else if (cf.variant == 1) trial(k >= 3 ? ALPHAS[2] : (k >= 1 ? ALPHAS[k - 1] : 1.0), z);   // ... at a middle step
  else { z.assign(x, x + nF); }                                                    // ... at the current point: nothing improves
  for (long i = 0; i < nF; i++) b[i] = z[i];
  P.H1.assign(nF + 4, -1); P.nH1 = 0; P.residual = 1e300; P.residual_calcs = 0;
}
static uint64_t fnv(const void* p, size_t n, uint64_t h = 1469598103934665603ULL) { const unsigned char* c = (const unsigned char*)p; for (size_t i = 0; i < n; i++) { h ^= c[i]; h *= 1099511628211ULL; } return h; }

static Problem* g_P;
#ifdef C12_MEM
// memory-access variant: the protocol variable `state` of every worker's descent_trial is a scheduling point of its own
static int watch_cb(const void* a) { int n = ms_nthreads_created(); for (int id = 1; id <= n; id++) { descent_trial* t = (descent_trial*)ms_thread_arg(id); if (t && a == (const void*)&t->state) return 1; } return 0; }
static const char* describe_cb(const void* a) {
  static char buf[48]; int n = ms_nthreads_created();
  for (int id = 1; id <= n; id++) { descent_trial* t = (descent_trial*)ms_thread_arg(id); if (!t) continue;
    const char* p = (const char*)a; const char* b = (const char*)t;
    if (p >= b && p < b + sizeof(descent_trial)) {
      size_t off = p - b; const char* f = "?";
#define FLD(name) if (off == offsetof(descent_trial, name)) f = #name;
      FLD(state) FLD(alpha) FLD(residual) FLD(nH1) FLD(H1) FLD(x_c) FLD(x) FLD(x_F) FLD(F) FLD(nF) FLD(id) FLD(mutex) FLD(cv) FLD(AtA_F) FLD(Atb_F) FLD(c)
#undef FLD
      snprintf(buf, sizeof buf, "descent_trial[%d].%s", id - 1, f); return buf; }
    if (t->x_c && p >= (const char*)t->x_c->x && p < (const char*)t->x_c->x + 8 * t->x_c->nrow) { snprintf(buf, sizeof buf, "descent_trial[%d].x_c->x[]", id - 1); return buf; }
    if (t->H1 && p >= (const char*)t->H1 && p < (const char*)t->H1 + sizeof(long) * t->nF) { snprintf(buf, sizeof buf, "descent_trial[%d].H1[]", id - 1); return buf; }
  }
  if (g_P && (const char*)a >= (const char*)g_P->x->x && (const char*)a < (const char*)g_P->x->x + 8 * g_P->x->nrow) return "x[] (the solution vector)";
  return "other";
}
#endif
static uint64_t state_cb(void) {   // the data the protocol branches on, read while exactly one thread runs
  uint64_t h = 7;
  int n = ms_nthreads_created();
  for (int id = 1; id <= n; id++) {
    descent_trial* t = (descent_trial*)ms_thread_arg(id);
    h = fnv(&t->state, sizeof t->state, h);
    double a = t->alpha ? t->alpha[0] : -1.0; h = fnv(&a, 8, h);
    h = fnv(&t->residual, 8, h); h = fnv(&t->nH1, sizeof t->nH1, h);
    if (t->x_c) h = fnv(t->x_c->x, 8 * t->x_c->nrow, h);
    if (t->H1 && t->nH1 > 0) h = fnv(t->H1, sizeof(long) * t->nH1, h);
  }
  h = fnv(g_P->x->x, 8 * g_P->nF, h); h = fnv(&g_P->nH1, sizeof(long), h);
  return h;
}

struct Exec { ms_result r; std::vector<ms_rec> recs; std::vector<unsigned char> out; int status; std::string err; };
static Exec execute(const Config& cf, const std::vector<int>& prefix) {
  Exec e; int fd[2]; if (pipe(fd)) { perror("pipe"); exit(2); }
  std::string errpath = vf::fmt("c12_%d.err", (int)getpid());
  fflush(nullptr);
  pid_t pid = fork();
  if (pid == 0) {
    close(fd[0]);
    if (!freopen(errpath.c_str(), "w", stderr)) _exit(8);
    if (cf.goto_env) { setenv("GOTO_NUM_THREADS", std::to_string(cf.W).c_str(), 1); setenv("OMP_NUM_THREADS", std::to_string(cf.W + 1).c_str(), 1); } else { setenv("OMP_NUM_THREADS", std::to_string(cf.W).c_str(), 1); unsetenv("GOTO_NUM_THREADS"); } setenv("MS_SPURIOUS", std::to_string(cf.spurious).c_str(), 1);
    Problem P; build(P, cf); g_P = &P;
#ifdef C12_MEM
    ms_mem_enable(watch_cb, describe_cb);
#endif
    ms_begin(prefix.data(), prefix.size(), fd[1], state_cb, 20000);
    int feasible = walk_descents(P.A, P.b, P.x, P.xF, P.F.data(), &P.nF, P.H1.data(), &P.nH1, &P.residual, &P.residual_calcs, 0, &P.c);
    ms_end(0);
    // observable result of the call
    std::vector<unsigned char> out; auto put = [&](const void* p, size_t n) { out.insert(out.end(), (const unsigned char*)p, (const unsigned char*)p + n); };
    put(&feasible, sizeof feasible); put(&P.nH1, sizeof P.nH1); put(P.H1.data(), sizeof(long) * P.nH1); put(P.x->x, 8 * P.nF); put(&P.residual, 8);
    uint32_t n = out.size(); if (write(fd[1], &n, 4) != 4 || write(fd[1], out.data(), n) != (ssize_t)n) _exit(9);
    _exit(0);
  }
  close(fd[1]);
  std::vector<unsigned char> buf; unsigned char tmp[65536]; ssize_t n;
  while ((n = read(fd[0], tmp, sizeof tmp)) > 0) buf.insert(buf.end(), tmp, tmp + n);
  close(fd[0]);
  int st = 0; waitpid(pid, &st, 0); e.status = st;
  memset(&e.r, 0, sizeof e.r); e.r.outcome = -1;
  if (buf.size() >= sizeof(ms_result)) {
    memcpy(&e.r, buf.data(), sizeof(ms_result));
    size_t off = sizeof(ms_result); e.recs.resize(e.r.nrec);
    if (buf.size() >= off + sizeof(ms_rec) * e.r.nrec) { memcpy(e.recs.data(), buf.data() + off, sizeof(ms_rec) * e.r.nrec); off += sizeof(ms_rec) * e.r.nrec; }
    if (buf.size() >= off + 4) { uint32_t m; memcpy(&m, buf.data() + off, 4); off += 4; if (buf.size() >= off + m) e.out.assign(buf.begin() + off, buf.begin() + off + m); }
  }
  if (!(WIFEXITED(st) && WEXITSTATUS(st) == 0)) { FILE* f = fopen(errpath.c_str(), "r"); if (f) { char b[2000]; size_t k = fread(b, 1, sizeof b - 1, f); b[k] = 0; e.err = b; fclose(f); } }
  remove(errpath.c_str());
  return e;
}

static std::string sched_str(const Exec& e) {   // human-readable schedule: which thread performed which op at each choice point
  std::string s;
  for (size_t i = 0; i < e.recs.size() && i < 400; i++) { const ms_rec& r = e.recs[i]; s += vf::fmt("%sT%d:%s", i ? " " : "", r.en[r.chosen] & 0x7f, ms_opname(r.ops[r.chosen])); }
  return s;
}
static std::string choices_str(const Exec& e) { std::vector<int> c; for (auto& r : e.recs) c.push_back(r.chosen); return vf::vecstr(c); }

static void explore(const Config& cf, uint64_t max_exec) {
  std::string ck = vf::fmt("W=%d:n_alpha=%d:%s%s", cf.W, cf.nalpha, VN[cf.variant], cf.spurious ? ":1-spurious-wakeup" : "") + (cf.goto_env ? ":via-GOTO_NUM_THREADS" : "");
  H->hint(ck);
  // sequential reference: one worker, non-preemptive default schedule
  Config ref = cf; ref.W = 1; ref.spurious = 0; ref.goto_env = 0;
  Exec R = execute(ref, {});
  if (R.r.outcome != MS_COMPLETE || R.out.empty()) { H->violation("reference-run-failed", ck + " outcome=" + std::to_string(R.r.outcome) + " " + R.err); return; }
  { int feasible; memcpy(&feasible, R.out.data(), sizeof feasible); H->cls(std::string("reference|") + VN[cf.variant] + (feasible ? "|feasible" : "|infeasible"));
    if ((cf.variant == 2) == (feasible != 0)) H->violation("harness:variant-did-not-produce-the-intended-selection", ck); }
  std::unordered_set<uint64_t> visited; std::deque<std::vector<int>> work; work.push_back({});
  uint64_t execs = 0, transitions = 0, deadlocks = 0, accesses = 0; std::set<std::string> outcomes;
  size_t maxpre = 0;
  while (!work.empty()) {
    if (execs >= max_exec) { H->count("cap_executions_hit"); break; }
    std::vector<int> prefix = work.front(); work.pop_front();
    Exec e = execute(cf, prefix); execs++;
    std::string where = vf::fmt("[%s] choices=%s schedule=%s", ck.c_str(), choices_str(e).c_str(), sched_str(e).c_str());
    if (e.r.nraces > 0) { static const char* RK[] = {"", "write-write", "write-then-read", "read-then-write"}; H->violation(std::string("data-race:") + RK[e.r.race_kind] + ":" + e.r.race_what, where + vf::fmt(" threads T%d and T%d, unordered by happens-before (%d racing pairs in this execution)", e.r.race_t1, e.r.race_t2, e.r.nraces)); }
    accesses += e.r.naccesses;
    if (e.r.outcome == MS_DEADLOCK) { deadlocks++; H->violation("deadlock:" + std::string(e.r.unfinished_mask ? "lost-wake-up-or-wait-forever" : "main"), where + vf::fmt(" unfinished-mask=%x", e.r.unfinished_mask)); }
    else if (e.r.outcome == MS_LIVELOCK) H->violation("livelock:step-horizon", where);
    else if (e.r.outcome == MS_DIVERGED) { H->violation("harness:replay-diverged", where); continue; }
    else if (e.r.outcome != MS_COMPLETE || !(WIFEXITED(e.status) && WEXITSTATUS(e.status) == 0)) H->violation("crash-under-schedule", where + " " + vf::oneline(e.err).substr(0, 600));
    else {
      if (e.r.unfinished_mask) H->violation("threads-not-finished-at-return", where);
      if (e.out != R.out) H->violation("result-differs-from-sequential-reference", where);
      outcomes.insert(std::string(e.out.begin(), e.out.end()));
    }
    if (e.recs.size() < prefix.size()) continue;
    for (size_t i = prefix.size(); i < e.recs.size(); i++) {
      const ms_rec& r = e.recs[i];
      if (!visited.insert(r.state).second) break;
      transitions += r.nen;
      for (int alt = 0; alt < r.nen; alt++) if (alt != r.chosen) { std::vector<int> p; for (size_t j = 0; j < i; j++) p.push_back(e.recs[j].chosen); p.push_back(alt); maxpre = std::max(maxpre, p.size()); work.push_back(p); }
    }
    if (execs == 1 && H->want_sample()) H->sample("{\"config\":\"" + ck + "\",\"default_schedule\":\"" + sched_str(e) + "\"}");
  }
  H->count("states", visited.size()); H->count("transitions", transitions); H->count("traces_validated_against_impl", execs); H->count("evaluations", execs);
  H->count("deadlock_executions", deadlocks);
  if (accesses) H->count("memory_accesses_checked_for_races", accesses);
  H->note(vf::fmt("%s: states=%zu transitions=%llu executions=%llu distinct_outcomes=%zu deadlocks=%llu longest_prefix=%zu", ck.c_str(), visited.size(), (unsigned long long)transitions, (unsigned long long)execs, outcomes.size(), (unsigned long long)deadlocks, maxpre));
  H->cls(ck);
  if (outcomes.size() > 1) H->violation("more-than-one-outcome-across-schedules", ck);
}

int main(int argc, char** argv) {
  vf::Harness h("C12", argc, argv);
  H = &h;
  h.meta("level", "model_checking");
  h.meta("rule", "stateless exploration with state matching of the real walk_descents + evaluate_descent under a cooperative scheduler (every lock, unlock, cond_wait, broadcast, create, join, exit and thread start is a scheduling point; choice = which enabled thread performs its pending operation); canonical state = per-thread (status, pending operation, call site, join target, joined flag), mutex owner, condition wait set, plus the protocol data read from the descent_trial structures (state, alpha, residual, nH1, H1, x_c) and the coordinator's x / nH1; one forked execution per transition of the reachable state graph; configurations: workers x trial steps x {first improving step at alpha=1, in the middle, never}, plus configurations in which one spurious return from cond_wait is injected at every possible point, and configurations whose worker count comes from GOTO_NUM_THREADS; thorough adds four workers; the same exploration is run a second time on a build in which every load and store of cholesky_solve.c calls the scheduler (compiled with -fsanitize=thread, linked against engine/sched/ms_mem.c instead of the TSan runtime): accesses to the protocol variable descent_trial.state are scheduling points of their own, and every access is checked against a vector-clock happens-before relation (create/start, exit/join, unlock/lock), so a data race or a result read before its worker finished is reported on every explored schedule; oracle on every complete execution: no deadlock / livelock, all threads joined once, outputs (feasible, x[F], H1, nH1, residual) bit-identical to the one-worker non-preemptive reference, ASan clean");
  h.meta("assumption", "sequentially consistent interleavings at synchronisation operations; data-race freedom between them is checked separately by the free-running TSan pass (C12tsan spaces)");
  h.meta("assumption", "cholmod_common is shared by the workers inside an uninstrumented library: races inside CHOLMOD are outside this check");
  h.meta("extra_binaries", "C12tsan,C12mem");
  h.meta("deadline_quick", "900"); h.meta("deadline_thorough", "3000");
  h.meta("require_states", "500");
  h.timeout_s = 2400;
  // configurations (W, n_alpha): W both smaller and larger than n_alpha, 1..3 blocks
  std::vector<Config> cfs;
  std::vector<std::pair<int, int>> wn = {{1, 2}, {1, 3}, {2, 2}, {2, 3}, {2, 4}, {3, 2}, {3, 3}};
  if (h.thorough) { wn.push_back({2, 5}); wn.push_back({2, 6}); wn.push_back({3, 4}); wn.push_back({3, 6}); wn.push_back({3, 7}); wn.push_back({4, 2}); wn.push_back({4, 4}); wn.push_back({4, 5}); }
  #ifdef C12_MEM
  if (h.thorough) for (auto& p : wn) if (p.first == 4) for (int v = (p.second == 5 ? 1 : 0); v < 3; v++) cfs.push_back({p.first, p.second, v, 0, 0});
#else
  if (h.thorough) for (int v = 0; v < 3; v++) cfs.push_back({4, 2, v, 0, 0});   // the larger four-worker graphs are explored by the memory-access variant (bin/C12mem)
#endif   // the largest graphs first (they bound the wall time)
  for (auto& p : wn) if (p.first != 4) for (int v = 0; v < 3; v++) cfs.push_back({p.first, p.second, v, 0, 0});
  cfs.push_back({2, 3, 1, 0, 1}); if (h.thorough) cfs.push_back({3, 2, 2, 0, 1});   // worker count taken from GOTO_NUM_THREADS
  // POSIX allows cond_wait to return spuriously: the same protocol with one such return injected at every possible place
  { std::vector<std::pair<int, int>> sp = {{1, 2}, {2, 2}}; if (h.thorough) { sp.push_back({1, 3}); sp.push_back({2, 3}); sp.push_back({2, 4}); sp.push_back({3, 2}); } for (auto& p : sp) for (int v = 0; v < 3; v += 2) cfs.push_back({p.first, p.second, v, 1, 0}); }
  if (const char* pr = getenv("C12_PROBE")) { Config c{2, 2, 0, 0, 0}; sscanf(pr, "%d,%d,%d,%d", &c.W, &c.nalpha, &c.variant, &c.spurious); cfs.assign(1, c); }   // experiments: one configuration
  h.add_space("configs", cfs.size(), [cfs](uint64_t i) { explore(cfs[i], 400000); });
  return h.main();
}
