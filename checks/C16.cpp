// C16 — auxiliary keys behave as an ordered string map that survives serialisation: BFS to a fixpoint.
#include "engine/vf.hpp"
#include "engine/tablegen.hpp"
#include <photospline/cinter/splinetable.h>
#include <deque>
typedef photospline::splinetable<> Table;
static vf::Harness* H;

static std::string rstrip(std::string s) { while (!s.empty() && s.back() == ' ') s.pop_back(); return s; }

// ---- alphabet
struct Val { int kind; /*0 int,1 double,2 string*/ int iv; double dv; std::string sv; std::string text() const { if (kind == 0) return std::to_string(iv); if (kind == 1) { std::ostringstream ss; ss << dv; return ss.str(); } return sv; } };
struct Op { int kind; /*0 write,1 remove,2 roundtrip*/ std::string key; Val val; std::string label; };

static bool reserved(const std::string& k) { static const char* pre[] = {"BITPIX", "SIMPLE", "TYPE", "ORDER", "NAXIS", "PERIOD", "EXTEND", "COMMENT"}; for (auto p : pre) if (k.compare(0, strlen(p), p) == 0) return true; return false; }
// the property's rules for what must be rejected (independent of aux.h)
static bool key_malformed(const std::string& k) {
  if (k.empty()) return true;
  if (k.size() <= 8) { for (char c : k) if (!(isupper((unsigned char)c) || isdigit((unsigned char)c))) return true; return false; }
  for (char c : k) if (c == '=' || islower((unsigned char)c) || (unsigned char)c < 0x20 || (unsigned char)c > 0x7E) return true;   // a FITS header is printable ASCII
  if (k.front() == ' ' || k.back() == ' ') return true;   // FITS keyword names have no leading / trailing blanks (cfitsio strips them)
  if (k.size() > 66) return true;                          // "HIERARCH " + key + "= ''" no longer fits on an 80-character card
  return false;
}
static bool value_malformed(const std::string& v) { for (char c : v) if ((unsigned char)c < 0x20 || (unsigned char)c > 0x7E) return true; return false; }
static size_t capacity(const std::string& k) { return k.size() <= 8 ? 68 : (k.size() >= 67 ? 0 : 80 - (13 + k.size())); }
static size_t encoded_len(const std::string& v) { size_t n = v.size(); for (char c : v) if (c == '\'') n++; return n; }

typedef std::vector<std::pair<std::string, std::string>> Model;   // insertion-ordered (key, value)
struct Expect { bool throws; bool ret; };
static Expect model_write(Model& m, const std::string& k, const std::string& v) {
  if (reserved(k) || key_malformed(k) || value_malformed(v) || encoded_len(v) > capacity(k)) return {true, false};
  for (auto& e : m) if (e.first == k) { e.second = v; return {false, false}; }
  m.push_back({k, v}); return {false, true};
}
static bool model_remove(Model& m, const std::string& k) { for (size_t i = 0; i < m.size(); i++) if (m[i].first == k) { m.erase(m.begin() + i); return true; } return false; }
static std::string canon(const Model& m) { std::string s; for (auto& e : m) s += e.first + "\x01" + rstrip(e.second) + "\x02"; return s; }

static bool apply_real(Table& t, std::unique_ptr<Table>& holder, const Op& op, bool& threw, bool& ret, std::string& msg) {
  threw = false; ret = false;
  try {
    if (op.kind == 0) { if (op.val.kind == 0) ret = t.write_key(op.key.c_str(), op.val.iv); else if (op.val.kind == 1) ret = t.write_key(op.key.c_str(), op.val.dv); else ret = t.write_key(op.key.c_str(), op.val.sv); }
    else if (op.kind == 1) ret = t.remove_key(op.key.c_str());
    else { auto buf = t.write_fits_mem(); std::unique_ptr<Table> u(new Table); try { u->read_fits_mem(buf.first, buf.second); } catch (...) { free(buf.first); throw; } free(buf.first); holder = std::move(u); ret = true; }
  } catch (std::exception& e) { threw = true; msg = e.what(); }
  return true;
}

static std::vector<std::string> g_keys_all;   // every key of the alphabet, for lookups

static void compare(const Table& t, const Model& m, const std::string& where) {
  if (t.get_naux_values() != m.size()) { H->violation("store-size-differs-from-model", where + vf::fmt(" real %zu model %zu", t.get_naux_values(), m.size())); return; }
  for (size_t i = 0; i < m.size(); i++) if (m[i].first != t.get_aux_key(i)) { H->violation("insertion-order-or-key-differs", where + vf::fmt(" slot %zu real '%s' model '%s'", i, t.get_aux_key(i), m[i].first.c_str())); return; }
  struct splinetable st; st.data = const_cast<Table*>(&t);
  for (auto& k : g_keys_all) {
    const char* v = t.get_aux_value(k.c_str()); const char* vc = splinetable_get_key(&st, k.c_str());
    auto it = std::find_if(m.begin(), m.end(), [&](const std::pair<std::string, std::string>& e) { return e.first == k; });
    H->count("evaluations");
    if ((v != nullptr) != (vc != nullptr) || (v && strcmp(v, vc))) H->violation("C-get_key-differs", where + " key " + k);
    if (it == m.end()) {
      if (v) H->violation("lookup-finds-absent-key", where + " key '" + k + "' -> '" + v + "'");
      int dummy = 12345; if (t.read_key(k.c_str(), dummy)) H->violation("typed-read-succeeds-for-absent-key", where + " key " + k);
      std::string sd; if (t.read_key(k.c_str(), sd)) H->violation("typed-read-succeeds-for-absent-key", where + " key " + k);
      int ci = 777; if (splinetable_read_key(&st, SPLINETABLE_INT, k.c_str(), &ci) == 0) H->violation("C-read_key-reports-success-for-absent-key", where + " key '" + k + "'");
      continue;
    }
    if (!v) { H->violation("lookup-misses-present-key", where + " key " + k); continue; }
    std::string want = it->second;
    if (!(std::string(v).size() >= want.size() && std::string(v).compare(0, want.size(), want) == 0 && rstrip(std::string(v).substr(want.size())).empty()) && rstrip(v) != rstrip(want))
      H->violation("lookup-returns-wrong-value", where + " key " + k + " real '" + v + "' model '" + want + "'");
    std::string sv; if (!t.read_key(k.c_str(), sv) || rstrip(sv) != rstrip(want)) H->violation("string-read-differs", where + " key " + k + " read '" + sv + "' model '" + want + "'");
    // typed reads return the value denoted by the stored string
    { char* end = nullptr; std::string w = rstrip(want); long li = strtol(w.c_str(), &end, 10); bool isint = !w.empty() && *end == 0;
      if (isint) { int got = -99999; if (!t.read_key(k.c_str(), got) || got != (int)li) H->violation("integer-read-differs", where + " key " + k + vf::fmt(" read %d stored '%s'", got, w.c_str()));
        int cg = -99999; if (splinetable_read_key(&st, SPLINETABLE_INT, k.c_str(), &cg) != 0 || cg != (int)li) H->violation("C-integer-read-differs", where + " key " + k); }
      double dd = strtod(w.c_str(), &end); bool isnum = !w.empty() && *end == 0;
      if (isnum) { double got = -1e99; if (!t.read_key(k.c_str(), got) || got != dd) H->violation("double-read-differs", where + " key " + k + vf::fmt(" read %.17g stored '%s'", got, w.c_str())); }
      else { int got = 4242; if (w.empty() || !isdigit((unsigned char)w[0])) { if (t.read_key(k.c_str(), got) && !(w.size() && (w[0] == '-' || w[0] == '+'))) H->violation("integer-read-succeeds-on-non-number", where + " key " + k + " stored '" + w + "'"); } } }
  }
}

static void explore(bool populated, bool full) {
  std::string ck = populated ? "populated-table" : "empty-table"; H->hint(ck);
  // one key is a strict prefix of another (short: A / AB; thorough also long: LONGKEYNAME / LONGKEYNAME1): a lookup that matches prefixes confuses them, in one order of insertion only
  std::vector<std::string> good = full ? std::vector<std::string>{"A", "AB", "LONGKEYNAME", "LONGKEYNAME1"} : std::vector<std::string>{"A", "AB", "LONGKEYNAME1"};
  std::vector<std::string> bad = {"ORDER7", "NAXIS", "TYPEX", "PERIOD0", "abc", "A_B", "A=LONGKEYNAM", "lowerlongkeyname", "", " LEADINGBLANK", "TRAILINGBLANK ", std::string(67, 'K')};
  g_keys_all = good; g_keys_all.insert(g_keys_all.end(), bad.begin(), bad.end()); g_keys_all.push_back("ABSENT");
  std::vector<Val> vals = {{0, 42, 0, ""}, {1, 0, 0.5, ""}, {2, 0, 0, ""}, {2, 0, 0, "x"}, {2, 0, 0, "it's"}};
  if (full) { vals.push_back({0, -7, 0, ""}); vals.push_back({2, 0, 0, std::string(40, '\'')}); vals.push_back({2, 0, 0, "two  words "}); }
  std::vector<Op> ops;
  for (auto& k : good) {
    for (auto& v : vals) ops.push_back({0, k, v, "write(" + k + "," + v.text() + ")"});
    size_t cap = capacity(k);
    ops.push_back({0, k, {2, 0, 0, std::string(cap, 'm')}, "write(" + k + ",<maximal " + std::to_string(cap) + ">)"});
    ops.push_back({0, k, {2, 0, 0, std::string(cap + 1, 'o')}, "write(" + k + ",<over-long " + std::to_string(cap + 1) + ">)"});
    ops.push_back({1, k, {}, "remove(" + k + ")"});
  }
  for (auto& k : bad) ops.push_back({0, k, {2, 0, 0, "v"}, "write(" + (k.empty() ? std::string("<empty key>") : k) + ",v)"});
  ops.push_back({1, "ABSENT", {}, "remove(ABSENT)"});
  if (populated) ops.push_back({2, "", {}, "roundtrip"});

  tg::TableSpec spec; spec.dims.push_back({2, tg::make_knots(tg::K_UNIFORM, 2, 8)}); spec.coeffs = tg::make_coeffs(1, spec.ncoeffs(), 3, 0);
  // BFS: state = canonical model (ordered (key, value-without-trailing-blanks) list); each transition replays the shortest history on a fresh table
  std::map<std::string, std::vector<int>> path_of; std::deque<std::string> frontier; std::map<std::string, Model> model_of;
  path_of[""] = {}; model_of[""] = Model(); frontier.push_back("");
  uint64_t transitions = 0; size_t maxdepth = 0;
  while (!frontier.empty()) {
    std::string cs = frontier.front(); frontier.pop_front();
    std::vector<int> path = path_of[cs];
    for (size_t oi = 0; oi < ops.size(); oi++) {
      std::unique_ptr<Table> holder(new Table); if (populated) tg::build(*holder, spec);
      Model m;
      // replay the history (on the real object and on the model)
      bool replay_ok = true;
      for (int pi : path) { bool th, rt; std::string msg; std::unique_ptr<Table> nh; apply_real(*holder, nh, ops[pi], th, rt, msg); if (nh) holder = std::move(nh); if (ops[pi].kind == 0) model_write(m, ops[pi].key, ops[pi].val.text()); else if (ops[pi].kind == 1) model_remove(m, ops[pi].key); }
      if (canon(m) != cs) { H->violation("harness:replay-did-not-reproduce-the-state", ck); replay_ok = false; }
      if (!replay_ok) continue;
      const Op& op = ops[oi];
      std::string where = "[" + ck + "] history {"; for (int pi : path) where += ops[pi].label + "; "; where += "} then " + op.label;
      Model before = m; Expect ex{false, false};
      if (op.kind == 0) ex = model_write(m, op.key, op.val.text()); else if (op.kind == 1) ex = {false, model_remove(m, op.key)}; else ex = {false, true};
      bool th, rt; std::string msg; std::unique_ptr<Table> nh;
      apply_real(*holder, nh, op, th, rt, msg); if (nh) holder = std::move(nh);
      transitions++;
      std::string opcls = op.kind == 0 ? (ex.throws ? "rejected-write" : "write") : (op.kind == 1 ? "remove" : "roundtrip");
      if (th != ex.throws) H->violation(ex.throws ? "write-that-must-be-rejected-was-accepted" : "operation-threw-unexpectedly:" + opcls, where + (th ? " (" + msg + ")" : ""));
      else if (!th && op.kind != 2 && rt != ex.ret) H->violation("return-value-differs-from-model:" + opcls, where + vf::fmt(" real %d model %d", (int)rt, (int)ex.ret));
      if (th != ex.throws && th) m = before;   // keep comparing against what really happened to avoid cascades
      compare(*holder, m, where);
      H->cls(ck + "|" + opcls + "|" + (th ? "threw" : "ok"));
      std::string ns = canon(m);
      if (!path_of.count(ns)) { auto p = path; p.push_back(oi); path_of[ns] = p; model_of[ns] = m; frontier.push_back(ns); maxdepth = std::max(maxdepth, p.size()); }
    }
  }
  H->count("states", path_of.size()); H->count("transitions", transitions); H->count("traces_validated_against_impl", transitions);
  H->note(vf::fmt("%s: states=%zu transitions=%llu operations=%zu longest-shortest-history=%zu (fixpoint reached)", ck.c_str(), path_of.size(), (unsigned long long)transitions, ops.size(), maxdepth));
  std::string sample = "{\"table\":\"" + ck + "\",\"operations\":["; for (size_t i = 0; i < ops.size() && i < 12; i++) sample += std::string(i ? "," : "") + "\"" + vf::jesc(ops[i].label) + "\""; H->sample(sample + "]}");
}


// ---- space "cards": every key-length / character-class / value-length boundary in one step on a fresh populated table
// (the BFS above keeps its alphabet small; the card-capacity rules switch at key length 8|9 and at the capacity of the card)
static void run_card(uint64_t idx) {
  static const int KL[] = {1, 2, 7, 8, 9, 10, 11, 20, 40, 65, 66, 67, 68, 80, 200};
  static const char BADC[] = {0, ' ', '.', '-', '_', 'a', '=', '\'', '/', '\t', '\x01', '\x7f', '\xe9'};    // 0: clean key
  static const vf::Radix R{15, 13, 3, 5, 6};
  auto v = R.decode(idx);
  int L = KL[v[0]]; char bc = BADC[v[1]]; int pos = v[2] == 0 ? 0 : (v[2] == 1 ? L / 2 : L - 1); int vl = v[3], qk = v[4];
  if (bc == 0 && v[2] != 0) return;
  if (L < 3 && v[2] == 1) return;
  std::string key; for (int i = 0; i < L; i++) key += (char)((i % 7 == 6) ? '0' + (i % 10) : 'A' + (i * 5 + L) % 26);
  if (bc) key[pos] = bc;
  if (reserved(key)) return;
  size_t cap = capacity(key);
  long enc = vl == 0 ? 0 : (vl == 1 ? 1 : (long)cap + (vl - 3));   // 0, 1, cap-1, cap, cap+1 encoded characters
  if (enc < 0) return;
  std::string val;
  if (qk == 0) val.assign(enc, 'v');
  else if (qk == 1) { if (enc < 2) return; val = "'" + std::string(enc - 2, 'w'); }
  else if (qk == 2) { if (enc % 2 || enc == 0) return; val.assign(enc / 2, '\''); }
  else if (qk == 3) { if (enc < 2) return; val = " " + std::string(enc - 1, 'x'); }                       // leading blank is part of the value
  else { if (enc < 1) return; val.assign(enc, 'y'); val[enc / 2] = qk == 4 ? '\t' : '\xe9'; }          // not printable ASCII: cannot be stored in a FITS header
  std::string where = vf::fmt("[key-length=%d %s value-encoded-length=%ld(capacity %zu) quotes=%d key='%s']", L, bc ? vf::fmt("char-0x%02x-at-%d", bc, pos).c_str() : "clean", enc, cap, qk, key.c_str());
  H->hint(where);
  tg::TableSpec spec; spec.dims.push_back({2, tg::make_knots(tg::K_UNIFORM, 2, 8)}); spec.coeffs = tg::make_coeffs(1, spec.ncoeffs(), 3, 0);
  Table t; tg::build(t, spec);
  t.write_key("FIRST", 1);
  Model m; model_write(m, "FIRST", "1");
  Expect ex = model_write(m, key, val);
  bool threw = false, ret = false; std::string msg;
  try { ret = t.write_key(key.c_str(), val); } catch (std::exception& e) { threw = true; msg = e.what(); }
  H->count("evaluations");
  std::string kc = vf::fmt("key-length%s:%s", L <= 8 ? "<=8" : ">8", bc ? vf::fmt("char-0x%02x", bc).c_str() : "clean");
  H->cls(std::string("card|") + (L <= 8 ? "short" : "long") + "|" + (bc ? "odd-char" : "clean") + "|" + (ex.throws ? "rejected" : "accepted"));
  if (threw != ex.throws) { H->violation(ex.throws ? "write-that-must-be-rejected-was-accepted:" + kc + (encoded_len(val) > cap ? ":over-long-value" : (value_malformed(val) ? ":unprintable-value" : ":malformed-key")) : "legal-entry-rejected:" + kc, where + (threw ? " (" + msg + ")" : "")); if (threw) { m.clear(); model_write(m, "FIRST", "1"); } }
  else if (!threw && ret != ex.ret) H->violation("return-value-differs-from-model:write", where);
  g_keys_all = {"FIRST", key, "ABSENT"};
  compare(t, m, where);
  if (threw) return;
  // every accepted entry survives a round trip
  std::pair<void*, size_t> buf{nullptr, 0};
  try { buf = t.write_fits_mem(); } catch (std::exception& e) { H->violation("accepted-entry-cannot-be-written:" + kc, where + " " + e.what()); return; }
  Table u; try { u.read_fits_mem(buf.first, buf.second); } catch (std::exception& e) { free(buf.first); H->violation("accepted-entry-cannot-be-read-back:" + kc, where + " " + e.what()); return; }
  free(buf.first);
  if (threw != ex.throws) { m.clear(); model_write(m, "FIRST", "1"); model_write(m, key, val); m.push_back({key, val}); m.erase(std::unique(m.begin(), m.end()), m.end()); }
  compare(u, m, where + " after round trip");
  H->count("round_trips");
}


// ---- space "reserved": the names that describe the table itself are refused whatever follows the reserved prefix and whatever
// the length of the key (short path and HIERARCH path), and the store stays as it was
static void run_reserved(uint64_t idx) {
  static const char* PRE[] = {"BITPIX", "SIMPLE", "TYPE", "ORDER", "NAXIS", "PERIOD", "EXTEND", "COMMENT"};
  static const char* SUF[] = {"", "0", "7", "X", "ED", "ARY", "OFMAGNITUDE", "_OF_ROTATION", " LABELS", "1234567890123456789012345678901234567890"};
  std::string key = std::string(PRE[idx / 10]) + SUF[idx % 10];
  std::string where = "[reserved-prefix key '" + key + "' (" + std::to_string(key.size()) + " characters)]"; H->hint(where);
  tg::TableSpec spec; spec.dims.push_back({2, tg::make_knots(tg::K_UNIFORM, 2, 8)}); spec.coeffs = tg::make_coeffs(1, spec.ncoeffs(), 3, 0);
  Table t; tg::build(t, spec); t.write_key("FIRST", 1);
  Model m; model_write(m, "FIRST", "1");
  bool threw = false; std::string msg;
  for (int kind = 0; kind < 3 && !threw; kind++) { try { if (kind == 0) t.write_key(key.c_str(), std::string("v")); else if (kind == 1) t.write_key(key.c_str(), 5); else t.write_key(key.c_str(), 0.25); } catch (std::exception& e) { threw = true; msg = e.what(); }
    H->count("evaluations");
    if (!threw) { H->violation(std::string("write-that-must-be-rejected-was-accepted:reserved-prefix:") + (key.size() <= 8 ? "short-key" : "long-key"), where); break; } threw = false; }
  { struct splinetable st; st.data = &t; if (splinetable_write_key(&st, SPLINETABLE_INT, key.c_str(), &idx) == 0 && t.get_naux_values() != 1) H->violation("C-write_key-accepts-reserved-prefix", where); }
  g_keys_all = {"FIRST", key, "ABSENT"};
  if (t.get_naux_values() == 1) compare(t, m, where);
  H->cls(std::string("reserved|") + PRE[idx / 10]);
}


// ---- space "cwrite": numbers written through the C wrapper (type tags INT / DOUBLE) and through the C++ template writers must
// leave the same string in the store, and an integer must come back exactly from every typed reader, before and after a round trip
static void run_cwrite(uint64_t idx) {
  static const int IV[] = {0, 1, -1, 42, 999999, 1000000, 1234567, -1234567, 2147483647, -2147483647 - 1, 100000000};
  static const double DV[] = {0.5, -2.25, 1e6, 1234567.0, 1e-7, -2.5e10, 1.0 / 3.0, 0.0};
  bool isint = idx < 11; std::string where = isint ? vf::fmt("[C write_key INT %d]", IV[idx]) : vf::fmt("[C write_key DOUBLE %.17g]", DV[idx - 11]); H->hint(where);
  tg::TableSpec spec; spec.dims.push_back({2, tg::make_knots(tg::K_UNIFORM, 2, 8)}); spec.coeffs = tg::make_coeffs(1, spec.ncoeffs(), 3, 0);
  Table a, b; tg::build(a, spec); tg::build(b, spec);
  struct splinetable st; st.data = &a; int rc;
  if (isint) { int v = IV[idx]; rc = splinetable_write_key(&st, SPLINETABLE_INT, "NUMBER", &v); b.write_key("NUMBER", v); }
  else { double v = DV[idx - 11]; rc = splinetable_write_key(&st, SPLINETABLE_DOUBLE, "NUMBER", &v); b.write_key("NUMBER", v); }
  H->count("evaluations");
  if (rc != 0) { H->violation("C-write_key-fails-for-a-number", where); return; }
  const char* sa = a.get_aux_value("NUMBER"); const char* sb = b.get_aux_value("NUMBER");
  if (!sa || !sb || strcmp(sa, sb)) H->violation(std::string("C-write_key-stores-a-different-string-than-the-C++-writer:") + (isint ? "int" : "double"), where + " C '" + (sa ? sa : "(null)") + "' C++ '" + (sb ? sb : "(null)") + "'");
  for (int pass = 0; pass < 2; pass++) {
    Table* t = &a; Table u;
    if (pass) { auto buf = a.write_fits_mem(); u.read_fits_mem(buf.first, buf.second); free(buf.first); t = &u; }
    if (isint) { int got = 12345; struct splinetable s2; s2.data = t; int cg = 54321;
      if (!t->read_key("NUMBER", got) || got != IV[idx]) H->violation("integer-not-recovered-exactly", where + vf::fmt(" read_key<int> gave %d%s", got, pass ? " after a round trip" : ""));
      if (splinetable_read_key(&s2, SPLINETABLE_INT, "NUMBER", &cg) != 0 || cg != IV[idx]) H->violation("integer-not-recovered-exactly:C-read_key", where + vf::fmt(" gave %d%s", cg, pass ? " after a round trip" : "")); }
  }
  H->cls(isint ? "cwrite|int" : "cwrite|double");
}

int main(int argc, char** argv) {
  vf::Harness h("C16", argc, argv);
  H = &h;
  h.meta("level", "model_checking");
  h.meta("rule", "breadth-first search to a FIXPOINT over the auxiliary-key store of a real table (populated 1-d table, and an empty one): state = ordered list of (key, value without trailing blanks); operations: write_key of every (key, value) of the alphabet (accepted keys: a short key, a second short key of which the first is a strict prefix, long/HIERARCH [thorough: two long keys, one a prefix of the other]; values: int, double, empty string, short string, string with a quote, [thorough: negative int, 40 quotes, embedded blanks], the maximal length for the key and one more), write_key with 12 keys that must be rejected (reserved prefixes, lower case, punctuation, '=', empty, leading / trailing blank, 67 characters), remove_key of present and absent keys, and a FITS round trip (write_fits_mem + read_fits_mem into a fresh table, continuing on it); because the value set is finite the search covers histories of every length; each transition replays the shortest history on a fresh object; oracle = insertion-ordered reference map stepped in lock-step: exceptions, return values, store size, key order, get_aux_value, string / int / double typed reads, C get_key / read_key, for every key of the alphabet after every transition; space 'cards' (one step on a fresh populated table, then a round trip): key length in {1,2,7,8,9,10,11,20,40,65,66,67,68,80,200} x {clean, one character replaced at the first / middle / last position by blank . - _ a = ' / TAB 0x01 0x7f 0xe9} x value of encoded length {0, 1, capacity-1, capacity, capacity+1} x {plain, leading quote, all quotes, leading blank, embedded TAB, embedded 0xe9}: accepted exactly when the model accepts, store unchanged on rejection, every accepted entry found under its key with its value after write_fits_mem + read_fits_mem; space 'reserved': the eight reserved prefixes x ten continuations (none, digits, letters, long HIERARCH-length tails, with blank / underscore) through the string, int and double writers and the C writer: refused, store unchanged; space 'cwrite': eleven integers (up to INT_MAX / INT_MIN) and eight doubles through the C wrapper's typed writer: same stored string as the C++ writer, integers recovered exactly by read_key<int> and the C reader before and after a round trip");
  h.meta("assumption", "key alphabet of 3 (quick) / 4 (thorough) accepted keys; value trailing blanks are not part of the state (the property allows a round trip to add them)");
  h.meta("require_states", "50");
  h.meta("deadline_quick", "900"); h.meta("deadline_thorough", "3000");
  h.timeout_s = 2400;
  bool full = h.thorough;
  h.add_space("stores", 2, [full](uint64_t i) { explore(i == 0, full); });
  h.add_space("cards", 15ull * 13 * 3 * 5 * 6, run_card);
  h.add_space("reserved", 80, run_reserved);
  h.add_space("cwrite", 19, run_cwrite);
  return h.main();
}
