// C06 — FITS serialisation round-trips every table exactly, in the documented layout.
#include "engine/vf.hpp"
#include "engine/tablegen.hpp"
#include "engine/evalspace.hpp"
#include "ref/fits_ref.hpp"
#include <photospline/cinter/splinetable.h>
#include <fstream>
#include <cfloat>
using namespace es;
static vf::Harness* H;

static fr::Bytes slurp(const std::string& p) { std::ifstream f(p, std::ios::binary); return fr::Bytes((std::istreambuf_iterator<char>(f)), std::istreambuf_iterator<char>()); }
static void spit(const std::string& p, const fr::Bytes& b) { std::ofstream f(p, std::ios::binary); f.write((const char*)b.data(), b.size()); }
static bool samef(float a, float b) { if (std::isnan(a) && std::isnan(b)) return true; return memcmp(&a, &b, 4) == 0; }
static bool samed(double a, double b) { if (std::isnan(a) && std::isnan(b)) return true; return memcmp(&a, &b, 8) == 0; }
// PERIODn is a header keyword: cfitsio writes doubles with 15 significant digits, and the property does not list
// periods among the exactly preserved fields -> compared to 1e-13 relative, not bit for bit.
static bool samep(double a, double b) { return samed(a, b) || fabs(a - b) <= 1e-13 * std::max(fabs(a), fabs(b)); }
static std::string rstrip(std::string s) { while (!s.empty() && s.back() == ' ') s.pop_back(); return s; }
static bool gained_only_blanks(const std::string& orig, const std::string& got) { return got.size() >= orig.size() && got.compare(0, orig.size(), orig) == 0 && rstrip(got.substr(orig.size())).empty(); }

static uint64_t fnv(const void* p, size_t n, uint64_t h = 1469598103934665603ULL) { const unsigned char* c = (const unsigned char*)p; for (size_t i = 0; i < n; i++) { h ^= c[i]; h *= 1099511628211ULL; } return h; }
static uint64_t digest(const fr::Decoded& d) {
  uint64_t h = fnv(&d.ndim, 4);
  h = fnv(d.order.data(), 4 * d.order.size(), h); h = fnv(d.naxes.data(), 8 * d.naxes.size(), h);
  for (auto& k : d.knots) h = fnv(k.data(), 8 * k.size(), h);
  h = fnv(d.coeffs.data(), 4 * d.coeffs.size(), h);
  h = fnv(d.extents.data(), 8 * d.extents.size(), h);
  return h;
}

static fr::Decoded from_table(const Table& t) {
  fr::Decoded d; d.ndim = t.ndim;
  for (uint32_t i = 0; i < t.ndim; i++) {
    d.order.push_back(t.order[i]); d.naxes.push_back(t.naxes[i]);
    d.knots.push_back(std::vector<double>(t.knots[i], t.knots[i] + t.nknots[i]));
    if (t.extents) { d.extents.push_back(t.extents[i][0]); d.extents.push_back(t.extents[i][1]); }
    if (t.periods) d.periods.push_back(t.periods[i]);
  }
  d.has_extents = t.extents != nullptr;
  d.coeffs.assign(t.coefficients, t.coefficients + t.get_ncoeffs());
  for (uint32_t i = 0; i < t.naux; i++) d.aux.push_back({std::string(&t.aux[i][0][0]), std::string(&t.aux[i][1][0])});
  return d;
}

// field-by-field comparison of two tables; `what` names the pair for the key
static void compare_tables(const Table& a, const Table& b, const std::string& what, const std::string& where, bool has_nan, bool periods_written, bool extents_written = true) {
  auto bad = [&](const std::string& f, const std::string& extra = "") { H->violation(what + ":" + f, where + " " + extra); };
  if (a.ndim != b.ndim) { bad("ndim"); return; }
  for (uint32_t i = 0; i < a.ndim; i++) {
    if (a.order[i] != b.order[i]) bad("order", vf::fmt("dim %u: %u vs %u", i, a.order[i], b.order[i]));
    if (a.nknots[i] != b.nknots[i]) { bad("nknots"); return; }
    if (a.naxes[i] != b.naxes[i]) { bad("naxes", vf::fmt("dim %u: %llu vs %llu", i, (unsigned long long)a.naxes[i], (unsigned long long)b.naxes[i])); return; }
    if (a.strides[i] != b.strides[i]) bad("strides", vf::fmt("dim %u: %llu vs %llu", i, (unsigned long long)a.strides[i], (unsigned long long)b.strides[i]));
    for (uint64_t j = 0; j < a.nknots[i]; j++) if (!samed(a.knots[i][j], b.knots[i][j])) { bad("knots", vf::fmt("dim %u knot %llu", i, (unsigned long long)j)); break; }
    if (extents_written) { if (!samed(a.extents[i][0], b.extents[i][0]) || !samed(a.extents[i][1], b.extents[i][1])) bad("extents", vf::fmt("dim %u", i)); }
    else if (!samed(b.extents[i][0], a.knots[i][a.order[i]]) || !samed(b.extents[i][1], a.knots[i][a.nknots[i] - a.order[i] - 1])) bad("default-extents", vf::fmt("dim %u", i));
    if (b.periods == nullptr) bad("periods-null-after-read");
    else if (periods_written && a.periods) { if (!samep(a.periods[i], b.periods[i])) bad("periods", vf::fmt("dim %u", i)); }
    else if (b.periods[i] != 0) bad("periods-not-zero-when-absent");
  }
  uint64_t n = a.get_ncoeffs();
  if (n != b.get_ncoeffs()) { bad("ncoeffs"); return; }
  for (uint64_t j = 0; j < n; j++) if (!samef(a.coefficients[j], b.coefficients[j])) { bad("coefficients", vf::fmt("index %llu: %a vs %a", (unsigned long long)j, a.coefficients[j], b.coefficients[j])); break; }
  if (a.naux != b.naux) bad("naux", vf::fmt("%u vs %u", a.naux, b.naux));
  else for (uint32_t i = 0; i < a.naux; i++) {
    if (strcmp(&a.aux[i][0][0], &b.aux[i][0][0]) != 0) bad("aux-key", vf::fmt("#%u '%s' vs '%s'", i, &a.aux[i][0][0], &b.aux[i][0][0]));
    else if (!gained_only_blanks(&a.aux[i][1][0], &b.aux[i][1][0])) bad("aux-value", vf::fmt("#%u key %s '%s' vs '%s'", i, &a.aux[i][0][0], &a.aux[i][1][0], &b.aux[i][1][0]));
  }
  if (!has_nan) { if (!(a == b)) bad("operator=="); if (a != b) bad("operator!="); }
  // identical evaluation
  std::vector<double> x(a.ndim); std::vector<int> c(a.ndim), c2(a.ndim);
  for (int r = 0; r < 3; r++) {
    for (uint32_t i = 0; i < a.ndim; i++) { const double* k = a.knots[i]; uint64_t lo = r == 0 ? 0 : (r == 1 ? a.order[i] : a.nknots[i] - 2); x[i] = k[lo] + 0.37 * (k[lo + 1] - k[lo]); if (!(x[i] > k[0])) x[i] = k[a.nknots[i] - 1]; }
    bool o1 = a.searchcenters(x.data(), c.data()), o2 = b.searchcenters(x.data(), c2.data());
    if (o1 != o2 || (o1 && c != c2)) { bad("lookup-differs"); continue; }
    if (!o1) continue;
    if (!samed(a.ndsplineeval<float>(x.data(), c.data(), 0), b.ndsplineeval<float>(x.data(), c.data(), 0))) bad("evaluation-differs");
  }
}

static void check_layout(const Table& t, const fr::Bytes& bytes, const std::string& where) {
  fr::Decoded d;
  try { d = fr::decode(bytes); } catch (std::exception& e) { H->violation("layout:independent-reader-rejects", where + " " + e.what()); return; }
  auto bad = [&](const std::string& f, const std::string& extra = "") { H->violation("layout:" + f, where + " " + extra); };
  if (d.coeff_bitpix != -32) bad("coefficient-bitpix", std::to_string(d.coeff_bitpix));
  if (d.ndim != t.ndim) { bad("ndim"); return; }
  for (uint32_t i = 0; i < t.ndim; i++) {
    if (d.naxes[i] != t.naxes[i]) { bad("axis-order", vf::fmt("dim %u: file says %llu table %llu", i, (unsigned long long)d.naxes[i], (unsigned long long)t.naxes[i])); return; }
    if (d.order[i] != t.order[i]) bad("ORDERn");
    if (d.knots[i].size() != t.nknots[i]) { bad("KNOTSn-length"); return; }
    for (uint64_t j = 0; j < t.nknots[i]; j++) if (!samed(d.knots[i][j], t.knots[i][j])) { bad("KNOTSn-data"); break; }
    if (t.periods && !(d.has_period[i] && samep(d.periods[i], t.periods[i]))) bad("PERIODn", vf::fmt("dim %u file=%g table=%g", i, d.periods[i], t.periods[i]));
  }
  if (!d.has_extents || d.extents.size() != 2 * t.ndim) bad("EXTENTS-missing");
  else for (uint32_t i = 0; i < t.ndim; i++) if (!samed(d.extents[2 * i], t.extents[i][0]) || !samed(d.extents[2 * i + 1], t.extents[i][1])) bad("EXTENTS-data");
  if (d.coeffs.size() != t.get_ncoeffs()) { bad("coefficient-count"); return; }
  for (uint64_t j = 0; j < d.coeffs.size(); j++) if (!samef(d.coeffs[j], t.coefficients[j])) { bad("coefficient-data", vf::fmt("index %llu", (unsigned long long)j)); break; }
  if (d.aux.size() != t.naux) bad("aux-count", vf::fmt("file %zu table %u", d.aux.size(), t.naux));
  else for (uint32_t i = 0; i < t.naux; i++) if (d.aux[i].first != &t.aux[i][0][0] || rstrip(d.aux[i].second) != rstrip(&t.aux[i][1][0])) bad("aux-entry", vf::fmt("#%u file %s='%s' table %s='%s'", i, d.aux[i].first.c_str(), d.aux[i].second.c_str(), &t.aux[i][0][0], &t.aux[i][1][0]));
}

static std::vector<uint32_t> order_pattern(int d, int p) {
  std::vector<uint32_t> o(d);
  for (int i = 0; i < d; i++) o[i] = p == 0 ? (uint32_t)(i % (d <= 6 ? 6 : 3)) : (p == 1 ? (d <= 6 ? 2u : 0u) : (uint32_t)((d - 1 - i) % (d <= 6 ? 6 : 2)));
  return o;
}

static void add_aux(Table& t, int naux) {
  static const char* lk = "LONGKEYNAME";
  for (int i = 0; i < naux; i++) {
    std::string key = (i % 7 == 3) ? vf::fmt("%s%d", lk, i) : vf::fmt("AUX%d", i);
    switch (i % 5) {
      case 0: t.write_key(key.c_str(), 42 + i); break;
      case 1: t.write_key(key.c_str(), 0.5 + i); break;
      case 2: t.write_key(key.c_str(), std::string("x")); break;
      case 3: t.write_key(key.c_str(), std::string("two words and more")); break;
      case 4: t.write_key(key.c_str(), std::string("MiXeD case, punct.;:/")); break;
    }
  }
}

// cards at the limits: maximal standard and HIERARCH values, quotes (doubled on the card), leading blanks, 8-character and 66-character keys
static void add_aux_maximal(Table& t) {
  t.write_key("A", std::string(68, 'm'));
  t.write_key("ABCDEFGH", std::string(34, '\''));
  t.write_key("QUOTES", std::string("it's 'quoted' ''twice''"));
  t.write_key("LEADING", std::string("  two leading blanks"));
  t.write_key("EMPTY", std::string(""));
  t.write_key("LONGKEYNAMEFORAHIERARCHCARD", std::string(80 - (13 + 27), 'h'));
  t.write_key(std::string(66, 'K').c_str(), std::string("v"));
  t.write_key("KEY WITH BLANKS", std::string("a / b"));
  t.write_key("NEGATIVE", -123456789);
}
static void rt_core(tg::TableSpec& s, int naux, int auxstyle, bool disk, bool has_nan, bool periods, const std::string& tabkey);

static std::string scratch_name(const char* tag) { return vf::fmt("c06_%d_%s.fits", (int)getpid(), tag); }

static void run_rt(uint64_t idx) {
  static const vf::Radix R{9, 3, 2, 2, 2, 4, 2};
  auto v = R.decode(idx);
  int d = v[0] + 1; auto o = order_pattern(d, v[1]); int ck = v[2]; bool nondef_ext = v[3], periods = v[4]; static const int NA[] = {0, 1, 5, 40}; int naux = NA[v[5]]; bool disk = v[6];
  tg::TableSpec s;
  for (int i = 0; i < d; i++) s.dims.push_back({o[i], tg::make_knots(i % 2 ? tg::K_IRREGULAR : tg::K_UNIFORM, o[i], 2 * o[i] + 2 + i, 0.125 * i)});
  uint64_t nc = s.ncoeffs();
  s.coeffs = tg::make_coeffs(2, nc, H->seed, idx);
  bool has_nan = false;
  if (ck == 1) {  // extreme values spread over the table
    static const uint32_t nanbits = 0x7fc12345u; float nanp; memcpy(&nanp, &nanbits, 4);
    const float ex[] = {0.f, -0.f, 1e-45f, -1.17549435e-38f, FLT_MAX, -FLT_MAX, INFINITY, -INFINITY, nanp, 1.f};
    for (uint64_t j = 0; j < nc; j += std::max<uint64_t>(1, nc / 23)) { s.coeffs[j] = ex[(j / std::max<uint64_t>(1, nc / 23)) % 10]; }
    for (auto c : s.coeffs) if (std::isnan(c)) has_nan = true;
  }
  if (nondef_ext) for (int i = 0; i < d; i++) { s.extents.push_back(s.dims[i].knots.front() - 1.5 - i); s.extents.push_back(s.dims[i].knots.back() + 0.25 * (i + 1)); }
  if (periods) for (int i = 0; i < d; i++) s.periods.push_back(i % 2 ? 0.0 : 360.0 / (i + 1));
  std::string tabkey = vf::fmt("d=%d:orders=%s:coef=%s:extents=%s:periods=%s:naux=%d:%s", d, vf::vecstr(o).c_str(), ck ? "extreme" : "seeded", nondef_ext ? "custom" : "default", periods ? "yes" : "null", naux, disk ? "disk" : "mem");
  rt_core(s, naux, 0, disk, has_nan, periods, tabkey);
}
// FITS is organised in 2880-byte blocks: tables whose coefficient image or knot extension ends exactly on, one element before or
// one element after a block edge (720 floats / 360 doubles per block), and header cards of maximal length
static void run_blocks(uint64_t idx) {
  static const vf::Radix R{14, 2, 2, 2};
  auto v = R.decode(idx);
  int shape = v[0]; uint32_t o = v[1] ? 3 : 0; int auxstyle = v[2]; bool disk = v[3];
  tg::TableSpec s; std::string what;
  static const int NC1[] = {719, 720, 721, 1439, 1440, 1441};      // 1-d: number of coefficients
  static const int NK1[] = {359, 360, 361, 720, 1080};              // 1-d: number of knots
  if (shape < 6) { int nc = NC1[shape]; s.dims.push_back({o, tg::make_knots(tg::K_IRREGULAR, o, nc + o + 1, 0.25)}); what = vf::fmt("1d:%d-coefficients", nc); }
  else if (shape < 11) { int nk = NK1[shape - 6]; s.dims.push_back({o, tg::make_knots(tg::K_UNIFORM, o, nk, -3.0)}); what = vf::fmt("1d:%d-knots", nk); }
  else if (shape == 11) { s.dims.push_back({o, tg::make_knots(tg::K_UNIFORM, o, 24 + o + 1, 0)}); s.dims.push_back({2, tg::make_knots(tg::K_IRREGULAR, 2, 30 + 3, 1)}); what = "2d:24x30=720-coefficients"; }
  else if (shape == 12) { s.dims.push_back({o, tg::make_knots(tg::K_UNIFORM, o, 7 + o + 1, 0)}); s.dims.push_back({1, tg::make_knots(tg::K_IRREGULAR, 1, 103 + 2, 1)}); what = "2d:7x103=721-coefficients"; }
  else { s.dims.push_back({1, tg::make_knots(tg::K_UNIFORM, 1, 8 + 2, 0)}); s.dims.push_back({o, tg::make_knots(tg::K_UNIFORM, o, 9 + o + 1, 0)}); s.dims.push_back({2, tg::make_knots(tg::K_IRREGULAR, 2, 10 + 3, 1)}); what = "3d:8x9x10=720-coefficients"; }
  s.coeffs = tg::make_coeffs(2, s.ncoeffs(), H->seed, idx);
  std::string tabkey = vf::fmt("blocks:%s:order0=%u:aux=%s:%s", what.c_str(), o, auxstyle ? "maximal-cards" : "none", disk ? "disk" : "mem");
  rt_core(s, auxstyle ? 9 : 0, auxstyle, disk, false, false, tabkey);
}
static void rt_core(tg::TableSpec& s, int naux, int auxstyle, bool disk, bool has_nan, bool periods, const std::string& tabkey) {
  H->hint(tabkey);
  Table t; tg::build(t, s);
  if (auxstyle == 0) add_aux(t, naux); else add_aux_maximal(t);
  std::string where = "[" + tabkey + "]";
  // (1) library round trip + (2) independent reader on the bytes
  fr::Bytes bytes;
  Table t2;
  if (disk) {
    std::string p = scratch_name("rt");
    t.write_fits(p);
    bytes = slurp(p);
    if (!t2.read_fits(p)) H->violation("read_fits-returns-false-for-a-successful-read", where);
    { struct splinetable st; st.data = nullptr; if (readsplinefitstable(p.c_str(), &st) != 0) H->violation("roundtrip:C-read-fails", where); else { compare_tables(t, *static_cast<Table*>(st.data), "roundtrip-C", where, has_nan, periods); splinetable_free(&st); } }
    remove(p.c_str());
  } else {
    auto buf = t.write_fits_mem();
    bytes.assign((unsigned char*)buf.first, (unsigned char*)buf.first + buf.second);
    if (!t2.read_fits_mem(buf.first, buf.second)) H->violation("read_fits_mem-returns-false-for-a-successful-read", where);
    free(buf.first);
  }
  compare_tables(t, t2, "roundtrip", where, has_nan, periods);
  check_layout(t, bytes, where);
  // (3) independent writer -> library reader
  {
    fr::Decoded dd = from_table(t);
    fr::Bytes wb = fr::encode(dd);
    Table t3;
    try {
      if (disk) { std::string p = scratch_name("iw"); spit(p, wb); t3.read_fits(p); remove(p.c_str()); }
      else t3.read_fits_mem(wb.data(), wb.size());
      compare_tables(t, t3, "independent-writer", where, has_nan, periods);
    } catch (std::exception& e) { H->violation("independent-writer:library-rejects", where + " " + e.what()); }
  }
  H->count("evaluations", 3);
  H->cls(tabkey);
  if (H->want_sample()) H->sample("{\"case\":\"" + tabkey + "\",\"file_bytes\":" + std::to_string(bytes.size()) + "}");
}

// legacy layouts produced by the independent writer
static void run_legacy(uint64_t idx) {
  static const vf::Radix R{5, 2, 2, 2, 4, 2, 4};
  auto v = R.decode(idx);
  int d = v[0] + 1; bool single_order = v[1], extents = v[2], periods = v[3]; static const int BP[] = {-32, -64, 16, 32}; int bitpix = BP[v[4]]; bool disk = v[5]; int ext_order = v[6];
  if (ext_order && (bitpix != -32 || single_order)) return;   // the extension-order variants only with the documented image type and ORDERn keys
  tg::TableSpec s;
  for (int i = 0; i < d; i++) { uint32_t o = single_order ? 2 : (uint32_t)((i * 2 + 1) % 5); s.dims.push_back({o, tg::make_knots(i % 2 ? tg::K_IRREGULAR : tg::K_UNIFORM, o, 2 * o + 2 + i, 0.5 * i)}); }
  uint64_t nc = s.ncoeffs(); s.coeffs.resize(nc);
  for (uint64_t j = 0; j < nc; j++) s.coeffs[j] = (bitpix > 0) ? (float)((int)(vf::mix64(H->seed + j + idx) % 2001) - 1000) : (float)(vf::u01(H->seed, j + idx * 7919) * 8 - 4);
  for (int i = 0; i < d; i++) { s.extents.push_back(s.dims[i].knots.front() - 2.0); s.extents.push_back(s.dims[i].knots.back() + 1.0); s.periods.push_back(10.0 * (i + 1)); }
  Table t; tg::build(t, s);
  t.write_key("LEGACY", std::string("yes"));
  static const char* EO[] = {"", ":EXTENTS-first", ":knot-extensions-reversed", ":unrelated-extension-before-the-knots"};
  std::string tabkey = vf::fmt("legacy:d=%d:%s:extents=%d:periods=%d:bitpix=%d:%s%s", d, single_order ? "ORDER" : "ORDERn", extents, periods, bitpix, disk ? "disk" : "mem", EO[ext_order]);
  H->hint(tabkey);
  fr::WriteOpts o; o.single_order_key = single_order; o.write_extents = extents; o.write_periods = periods; o.coeff_bitpix = bitpix; o.ext_order = ext_order;
  fr::Bytes wb = fr::encode(from_table(t), o);
  Table t3;
  try {
    if (disk) { std::string p = scratch_name("lg"); spit(p, wb); t3.read_fits(p); remove(p.c_str()); }
    else t3.read_fits_mem(wb.data(), wb.size());
    compare_tables(t, t3, "legacy", "[" + tabkey + "]", false, periods, extents);
  } catch (std::exception& e) { H->violation("legacy:library-rejects", "[" + tabkey + "] " + e.what()); }
  H->count("evaluations"); H->cls(tabkey);
}

// the reference files shipped with the project
static const char* shipped[] = {"test_spline_1d", "test_spline_1d_nco", "test_spline_2d", "test_spline_2d_nco", "test_spline_3d", "test_spline_3d_nco", "test_spline_4d", "test_spline_4d_nco", "test_spline_5d", "test_spline_5d_nco"};
static void run_shipped(uint64_t idx) {
  std::string repo = getenv("VERIF_REPO") ? getenv("VERIF_REPO") : "/repo";
  std::string verif = getenv("VERIF_DIR") ? getenv("VERIF_DIR") : "/verif";
  std::string path = repo + "/test/test_data/" + shipped[idx] + ".fits";
  H->hint(std::string("shipped:") + shipped[idx]);
  fr::Bytes b = slurp(path);
  std::string where = std::string("[shipped ") + shipped[idx] + "]";
  if (b.empty()) { H->violation("shipped:missing", where); return; }
  fr::Decoded d;
  try { d = fr::decode(b); } catch (std::exception& e) { H->violation("shipped:independent-reader-rejects", where + " " + e.what()); return; }
  // recorded digest
  std::map<std::string, std::string> rec; { std::ifstream f(verif + "/ref/shipped_digests.txt"); std::string n, h; while (f >> n >> h) rec[n] = h; }
  std::string got = vf::fmt("%016llx", (unsigned long long)digest(d));
  if (H->replaying() || getenv("C06_PRINT_DIGESTS")) H->note(std::string(shipped[idx]) + " " + got);
  if (rec.count(shipped[idx]) && rec[shipped[idx]] != got) H->violation("shipped:digest-changed", where + " recorded " + rec[shipped[idx]] + " now " + got);
  if (!rec.count(shipped[idx])) H->violation("shipped:no-recorded-digest", where + " " + got);
  Table t;
  try { t.read_fits(path); } catch (std::exception& e) { H->violation("shipped:library-rejects", where + " " + e.what()); return; }
  fr::Decoded lib = from_table(t);
  if (digest(lib) != digest(d)) H->violation("shipped:library-decodes-differently", where);
  if (lib.aux.size() != d.aux.size()) H->violation("shipped:aux-count", where);
  // and it survives a library round trip
  auto buf = t.write_fits_mem(); Table t2; t2.read_fits_mem(buf.first, buf.second); free(buf.first);
  compare_tables(t, t2, "shipped-roundtrip", where, false, true);
  H->count("evaluations"); H->cls(where);
}

int main(int argc, char** argv) {
  vf::Harness h("C06", argc, argv);
  H = &h;
  h.meta("level", "exploration");
  h.meta("rule", "complete walk: d=1..9 (pairwise different axis lengths naxes_i=order_i+1+i) x 3 order patterns x {seeded, extreme: +-0, denormal, +-FLT_MAX, +-inf, NaN with payload} x {default, custom} extents x {periods, none} x {0,1,5,40} aux keys (int, double, strings, HIERARCH keys; 40 forces a second header block) x {disk, memory}; per case: library round trip (C++ and C reader) compared field by field + operator== + identical evaluation, the written bytes parsed by ref/fits_ref.hpp (BITPIX -32, reversed NAXISn, ORDERn, PERIODn, KNOTSn/EXTENTS double extensions by EXTNAME, aux order), the same table produced by the independent writer and read by the library; blocks space: 1-d tables with 719/720/721/1439/1440/1441 coefficients or 359/360/361/720/1080 knots, 2-d and 3-d tables with exactly 720 / 721 coefficients (a FITS block holds 720 floats or 360 doubles) x order {0,3} x {no keys, nine cards at the limits: maximal standard / HIERARCH values, doubled quotes, leading blanks, empty value, 8- and 66-character keys, key with blanks} x {disk, memory}; legacy space: 1..5 dims x {ORDER, ORDERn} x {EXTENTS, none} x {PERIODn, none} x BITPIX {-32,-64,16,32} x {disk, memory} x extension order {as written by the library, EXTENTS first, knot extensions reversed, an unrelated extension before the knots} (extensions are found by EXTNAME); shipped space: the ten reference files (independent decode == library decode == recorded digest); distinct = case descriptor");
  h.meta("assumption", "ref/fits_ref.hpp is the independent reader/writer; shipped digests recorded in ref/shipped_digests.txt at the pinned commit");
  h.timeout_s = 120;
  h.add_space("shipped", 10, run_shipped);
  h.add_space("legacy", 5 * 2 * 2 * 2 * 4 * 2 * 4, run_legacy);
  h.add_space("rt", 9 * 3 * 2 * 2 * 2 * 4 * 2, run_rt);
  h.add_space("blocks", 14 * 2 * 2 * 2, run_blocks);
  return h.main();
}
