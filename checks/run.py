#!/usr/bin/env python3
"""Orchestrator for one property check.

  run.py <ID> <quick|thorough>            run the check, write evidence/<ID>.json
  run.py <ID> --replay <replay.json>      re-execute exactly one recorded case

Builds the harness from $VERIF_REPO (default /repo) working tree, shards the complete
enumeration over the cores, attributes crashes/timeouts to the exact case and resumes
behind it, replays every violation once before reporting it, applies the committed
known-findings file, and writes the evidence file.  Exit 0 = property held on everything
explored (or only KNOWN-FINDINGs); exit 1 = VIOLATION line(s) printed; exit 2 = harness error.
"""
import sys, os, json, subprocess, time, shutil, re, fnmatch, signal, glob

VERIF = os.path.dirname(os.path.dirname(os.path.abspath(__file__)))
REPO = os.environ.get("VERIF_REPO", "/repo")
SEED = int(os.environ.get("VERIF_SEED", "0") or 0)
JOBS = int(os.environ.get("VERIF_JOBS", str(os.cpu_count() or 4)))
MAX_VIOLATION_LINES = 25


def builddir():
    return os.path.join(VERIF, "build", re.sub(r"[^A-Za-z0-9]", "_", os.path.abspath(REPO)))


def sh(cmd, **kw):
    return subprocess.run(cmd, stdout=subprocess.PIPE, stderr=subprocess.STDOUT, text=True, **kw)


def build(prop):
    r = sh(["make", "-C", VERIF, "-j", str(JOBS), "REPO=" + os.path.abspath(REPO), "harness-" + prop])
    return r.returncode, r.stdout


def load_findings():
    """known_findings.txt lines:  open: property=<id> key=<glob> <what>   |   fixed: property=<id> <commit> <what>"""
    out = []
    p = os.path.join(VERIF, "known_findings.txt")
    if not os.path.exists(p):
        return out
    for line in open(p):
        line = line.strip()
        m = re.match(r"^open:\s+property=(\S+)\s+key=(\S+)\s+(.*)$", line)
        if m:
            out.append({"property": m.group(1), "key": m.group(2), "what": m.group(3)})
    return out


def key_matches(key, pattern):
    """glob in which only '*' is special"""
    return re.fullmatch(".*".join(re.escape(p) for p in pattern.split("*")), key) is not None


def crash_kind(rc, errtext):
    m = re.search(r"SUMMARY: (\w+Sanitizer): (\S+) [^\n]*? in (\S+)", errtext)
    if m:
        return "%s:%s" % (m.group(2), m.group(3))
    m = re.search(r"SUMMARY: (\w+Sanitizer): (\S+)", errtext)
    if m:
        return m.group(2)
    m = re.search(r"runtime error: ([^\n]{0,60})", errtext)
    if m:
        return "ubsan:" + re.sub(r"[^A-Za-z0-9]+", "-", m.group(1))[:50]
    m = re.search(r"Assertion `([^']{0,80})' failed", errtext)
    if m:
        return "assert:" + re.sub(r"\s+", "", m.group(1))[:60]
    if "terminate called" in errtext:
        m = re.search(r"terminate called after throwing an instance of '([^']+)'", errtext)
        return "terminate:" + (m.group(1) if m else "unknown")
    if rc < 0:
        try:
            return "signal:" + signal.Signals(-rc).name
        except Exception:
            return "signal:%d" % (-rc)
    return "exit:%d" % rc


class Shard:
    def __init__(self, binpath, r, n, tier, outdir, env, tag=""):
        self.bin, self.r, self.n, self.tier = binpath, r, n, tier
        self.tag = tag  # "" for the primary binary, "<name>@" for an extra build variant of the same harness
        self.out = os.path.join(outdir, "shard%s%02d.out" % (tag.replace("@", "_"), r))
        self.err = os.path.join(outdir, "shard%s%02d.err" % (tag.replace("@", "_"), r))
        self.env = env
        self.proc = None
        self.restarts = 0
        self.crashes = []  # (case, hint, kind, errtail)
        self.finished = False
        self.gave_up = False
        open(self.out, "w").close()

    def start(self, resume=None):
        cmd = [self.bin, "--tier", self.tier, "--seed", str(SEED), "--shard", "%d/%d" % (self.r, self.n), "--out", self.out]
        if resume:
            cmd += ["--resume", resume]
        self.errf = open(self.err, "w")
        self.proc = subprocess.Popen(cmd, stdout=subprocess.DEVNULL, stderr=self.errf, env=self.env, cwd=os.path.dirname(self.out))

    def cur(self):
        try:
            raw = open(self.out + ".cur", "rb").read().split(b"\0")[0].decode("utf-8", "replace")
        except Exception:
            return None, ""
        if "|" in raw:
            c, h = raw.split("|", 1)
        else:
            c, h = raw, ""
        return c, h

    def poll(self):
        if self.finished or self.proc is None:
            return
        rc = self.proc.poll()
        if rc is None:
            return
        self.errf.close()
        tail = open(self.out, "rb").read()[-8:]
        if rc == 0 and tail.endswith(b"END\n"):
            self.finished = True
            return
        errtext = open(self.err, errors="replace").read()[-20000:]
        case, hint = self.cur()
        kind = crash_kind(rc, errtext)
        self.crashes.append((case, hint, kind, errtext[-3000:]))
        self.restarts += 1
        if not case or ":" not in case or self.restarts > 300:
            self.finished = True
            self.gave_up = True
            return
        sp, idx = case.rsplit(":", 1)
        self.start(resume="%s:%d" % (sp, int(idx) + 1))

    def kill(self):
        if self.proc and self.proc.poll() is None:
            self.proc.kill()
            self.proc.wait()


def parse_out(path, acc, tag=""):
    for line in open(path, errors="replace"):
        f = line.rstrip("\n").split("\t")
        t = f[0]
        if t == "D" and len(f) >= 3:
            f[1] = tag + f[1]
        if t == "V" and len(f) >= 4:
            acc["viol"].append({"key": f[1], "case": tag + f[2], "detail": f[3]})
        elif t == "K" and len(f) >= 2:
            acc["classes"].add(f[1])
        elif t == "N" and len(f) >= 3:
            acc["counters"][f[1]] = acc["counters"].get(f[1], 0) + int(f[2])
        elif t == "X" and len(f) >= 2:
            acc["samples"].append(f[1])
        elif t == "D" and len(f) >= 3:
            acc["done"][f[1]] = acc["done"].get(f[1], 0) + int(f[2])
        elif t == "I" and len(f) >= 2:
            acc["notes"].append(f[1])


def case_sort_key(case, space_order):
    sp, idx = case.rsplit(":", 1)
    return (space_order.get(sp, 1 << 30), int(idx))


def replay_case(binpath, tier, case, env, outdir, tag):
    if "@" in case:  # case of an extra build variant: "<binary>@<space>:<idx>"
        bname, case = case.split("@", 1)
        binpath = os.path.join(os.path.dirname(binpath), bname)
    out = os.path.join(outdir, "replay_%s.out" % tag)
    err = os.path.join(outdir, "replay_%s.err" % tag)
    if os.path.exists(out):
        os.remove(out)
    with open(err, "w") as ef:
        p = subprocess.run([binpath, "--tier", tier, "--seed", str(SEED), "--replay", case, "--out", out],
                           stdout=subprocess.DEVNULL, stderr=ef, env=env, cwd=outdir, timeout=600)
    acc = {"viol": [], "classes": set(), "counters": {}, "samples": [], "done": {}, "notes": []}
    if os.path.exists(out):
        parse_out(out, acc)
    errtext = open(err, errors="replace").read()[-20000:]
    keys = set(v["key"] for v in acc["viol"])
    crash = None
    tail = open(out, "rb").read()[-8:] if os.path.exists(out) else b""
    if not tail.endswith(b"END\n"):
        crash = crash_kind(p.returncode, errtext)
    return keys, crash, acc, errtext


def main():
    if len(sys.argv) < 3:
        print(__doc__)
        return 2
    prop = sys.argv[1]
    replay_file = None
    if sys.argv[2] == "--replay":
        replay_file = sys.argv[3]
        tier = None
    else:
        tier = sys.argv[2]
        if tier not in ("quick", "thorough"):
            print("tier must be quick or thorough")
            return 2
    t0 = time.time()
    bd = builddir()
    binpath = os.path.join(bd, "bin", prop)
    env = dict(os.environ)
    env.setdefault("OPENBLAS_NUM_THREADS", "1")
    env.setdefault("OMP_NUM_THREADS", "1")
    env["ASAN_OPTIONS"] = "abort_on_error=0:detect_leaks=0:allocator_may_return_null=1:new_delete_type_mismatch=1:" + env.get("VERIF_ASAN_EXTRA", "")
    env["UBSAN_OPTIONS"] = "print_stacktrace=0:halt_on_error=1"
    env["VERIF_REPO"] = os.path.abspath(REPO)
    env["VERIF_DIR"] = VERIF

    rc, log = build(prop)
    # evidence of runs against a scratch copy (mutant runs) never overwrites the evidence for /repo
    evdir = os.path.join(VERIF, "evidence") if os.path.abspath(REPO) == "/repo" else os.path.join(bd, "evidence")
    os.makedirs(os.path.join(evdir, "replay"), exist_ok=True)
    if rc != 0:
        # A harness that no longer builds against the tree means a public member the property talks about
        # cannot be compiled/instantiated any more: reported as a violation with the compiler log as artefact.
        lp = os.path.join(evdir, "replay", "%s-build.log" % prop)
        open(lp, "w").write(log)
        sys.stdout.write(log[-4000:] + "\n")
        errlines = [l for l in log.splitlines() if "error" in l]
        if any(l.startswith(VERIF + "/") or (" " + VERIF + "/") in l for l in errlines) and not any(l.startswith(os.path.abspath(REPO) + "/") for l in errlines):
            print("HARNESS-ERROR: build failed inside /verif sources")
            return 2
        print("VIOLATION property=%s replay=%s" % (prop, lp))
        return 1

    if replay_file:
        rj = json.load(open(replay_file))
        tier = rj.get("tier", "quick")
        scratch = os.path.join(bd, "scratch", "%s-replay-%d" % (prop, os.getpid()))
        os.makedirs(scratch, exist_ok=True)
        keys, crash, acc, errtext = replay_case(binpath, tier, rj["case"], env, scratch, "r")
        for v in acc["viol"]:
            print("replayed violation key=%s detail=%s" % (v["key"], v["detail"]))
        if crash:
            print("replayed crash kind=%s\n%s" % (crash, errtext[-2000:]))
        shutil.rmtree(scratch, ignore_errors=True)
        reproduced = bool(keys) or bool(crash)
        print("REPRODUCED" if reproduced else "NOT-REPRODUCED")
        return 1 if reproduced else 0

    # ---- meta / spaces
    lr = subprocess.run([binpath, "--tier", tier, "--seed", str(SEED), "--list"], stdout=subprocess.PIPE, text=True, env=env)
    if lr.returncode != 0:
        print("HARNESS-ERROR: --list failed")
        return 2
    spaces, meta = [], {"assumption": []}
    for line in lr.stdout.splitlines():
        f = line.split("\t")
        if f[0] == "S":
            spaces.append((f[1], int(f[2])))
        elif f[0] == "M":
            if f[1] == "assumption":
                meta["assumption"].append(f[2])
            else:
                meta[f[1]] = f[2]
    binaries = [("", binpath)]
    for extra in [b for b in meta.get("extra_binaries", "").split(",") if b]:
        ep = os.path.join(os.path.dirname(binpath), extra)
        er = subprocess.run([ep, "--tier", tier, "--seed", str(SEED), "--list"], stdout=subprocess.PIPE, text=True, env=env)
        if er.returncode != 0:
            print("HARNESS-ERROR: --list failed for " + extra)
            return 2
        for line in er.stdout.splitlines():
            f = line.split("\t")
            if f[0] == "S":
                spaces.append((extra + "@" + f[1], int(f[2])))
        binaries.append((extra + "@", ep))
    space_order = {s: i for i, (s, _) in enumerate(spaces)}
    level = meta.get("level", "exploration")
    deadline = float(os.environ.get("VERIF_DEADLINE_S", meta.get("deadline_" + tier, "1500" if tier == "thorough" else "600")))

    scratch = os.path.join(bd, "scratch", "%s-%s-%d" % (prop, tier, os.getpid()))
    shutil.rmtree(scratch, ignore_errors=True)
    os.makedirs(scratch)
    total_cases = sum(n for _, n in spaces)
    nsh = max(1, min(max(1, JOBS // len(binaries)), int(meta.get("max_shards", JOBS)), total_cases))
    shards = [Shard(bp, r, nsh, tier, scratch, env, tag) for (tag, bp) in binaries for r in range(nsh)]
    for s in shards:
        s.start()
    deadline_hit = False
    while True:
        for s in shards:
            s.poll()
        if all(s.finished for s in shards):
            break
        if time.time() - t0 > deadline:
            deadline_hit = True
            for s in shards:
                s.kill()
            break
        time.sleep(0.05)

    acc = {"viol": [], "classes": set(), "counters": {}, "samples": [], "done": {}, "notes": []}
    for s in shards:
        parse_out(s.out, acc, s.tag)
    crashes = []
    gave_up = False
    for s in shards:
        gave_up = gave_up or s.gave_up
        for (case, hint, kind, errtail) in s.crashes:
            crashes.append({"key": "crash:%s:%s" % (kind, hint or (case.rsplit(":", 1)[0] if case else "?")),
                            "case": s.tag + (case or "?:0"), "detail": "process died (%s) %s" % (kind, hint), "errtail": errtail})

    # ---- group, replay, classify
    findings = [f for f in load_findings() if f["property"] == prop]
    groups = {}
    for v in acc["viol"] + crashes:
        groups.setdefault(v["key"], []).append(v)
    reported, known, unreproduced = [], [], []
    n = 0
    replays_left = 30
    unreplayed = 0
    kf_seen = {}
    ordered_keys = sorted(groups, key=lambda k: min(case_sort_key(v["case"], space_order) for v in groups[k]))
    # The replays of the first groups are independent processes: run them side by side, so that a change which makes many
    # cases hang (each replay then lasts until the per-case timeout) does not turn the report into an hour of serial waiting.
    spec = {}
    if len(ordered_keys) > 1:
        import concurrent.futures
        firsts = [(k, sorted(groups[k], key=lambda v: case_sort_key(v["case"], space_order))[0]["case"]) for k in ordered_keys[:30]]
        with concurrent.futures.ThreadPoolExecutor(max_workers=10) as ex:
            futs = {k: ex.submit(replay_case, binpath, tier, c, env, scratch, "s%d" % i) for i, (k, c) in enumerate(firsts)}
            for k, f in futs.items():
                try:
                    spec[k] = f.result()
                except Exception:
                    pass
    for key in ordered_keys:
        vs = sorted(groups[key], key=lambda v: case_sort_key(v["case"], space_order))
        first = vs[0]
        kf = next((f for f in findings if key_matches(key, f["key"])), None)
        rec = {"property": prop, "key": key, "case": first["case"], "detail": first["detail"], "tier": tier, "seed": SEED,
               "occurrences": len(vs), "replay_cmd": "python3 checks/run.py %s --replay <this file>" % prop}
        if "errtail" in first:
            rec["stderr_tail"] = first["errtail"]
        if kf and id(kf) in kf_seen:
            kf_seen[id(kf)][1]["more_keys"] = kf_seen[id(kf)][1].get("more_keys", 0) + 1
            continue
        if replays_left <= 0:
            unreplayed += 1
            continue
        replays_left -= 1
        rkeys, rcrash, _, rerr = spec[key] if key in spec else replay_case(binpath, tier, first["case"], env, scratch, "v%d" % n)
        ok = (key in rkeys) or (key.startswith("crash:") and rcrash is not None)
        if not ok:
            rec["replay_observed"] = {"keys": sorted(rkeys), "crash": rcrash}
            unreproduced.append(rec)
            continue
        rp = os.path.join(evdir, "replay", "%s-%d.json" % (prop, n))
        json.dump(rec, open(rp, "w"), indent=1)
        n += 1
        if kf:
            kf_seen[id(kf)] = (kf, rec, rp)
            known.append((kf, rec, rp))
        else:
            reported.append((rec, rp))

    # ---- evidence
    done_total = sum(acc["done"].values())
    complete = all(acc["done"].get(s, 0) + sum(1 for c in crashes if c["case"].rsplit(":", 1)[0] == s) >= n_ for s, n_ in spaces)
    caps = {k: v for k, v in acc["counters"].items() if k.startswith("cap_")}
    exhaustive = complete and not deadline_hit and not gave_up and not caps
    cov = {
        "evaluations": int(acc["counters"].get("evaluations", done_total)),
        "distinct_nontrivial": len(acc["classes"]),
        "rule": meta.get("rule", ""),
        "samples": [try_json(x) for x in acc["samples"][:12]] or ["(none)"],
        "exhaustive": bool(exhaustive),
        "cases": done_total,
        "spaces": {s: {"size": n_, "completed": acc["done"].get(s, 0)} for s, n_ in spaces},
        "counters": {k: v for k, v in sorted(acc["counters"].items())},
        "deadline_hit": deadline_hit,
        "crashed_cases": len(crashes),
        "unreproduced": unreproduced[:10],
        "known_findings_seen": [r["key"] for _, r, _ in known],
        "violation_keys": [r["key"] for r, _ in reported][:50],
        "shards": nsh,
        "violation_keys_not_replayed": unreplayed,
    }
    if level == "model_checking":
        cov["states"] = int(acc["counters"].get("states", 0))
        cov["transitions"] = int(acc["counters"].get("transitions", 0))
        cov["traces_validated_against_impl"] = int(acc["counters"].get("traces_validated_against_impl", 0))
    if acc["notes"]:
        cov["notes"] = acc["notes"][:40]
    ev = {"property_id": prop, "tier": tier, "seed": SEED, "level": level, "coverage": cov,
          "assumptions": meta["assumption"], "wall_s": round(time.time() - t0, 2), "violations": len(reported)}
    json.dump(ev, open(os.path.join(evdir, prop + ".json"), "w"), indent=1)

    for kf, rec, rp in known:
        print("KNOWN-FINDING: property=%s %s [key=%s case=%s replay=%s]" % (prop, kf["what"], rec["key"], rec["case"], rp))
    for rec, rp in reported[:MAX_VIOLATION_LINES]:
        print("detail: key=%s case=%s occurrences=%d :: %s" % (rec["key"], rec["case"], rec["occurrences"], rec["detail"][:600]))
        print("VIOLATION property=%s replay=%s" % (prop, rp))
    print("%s %s: cases=%d evaluations=%d classes=%d exhaustive=%s violations=%d known=%d unreproduced=%d wall=%.1fs" % (
        prop, tier, done_total, cov["evaluations"], cov["distinct_nontrivial"], exhaustive, len(reported), len(known), len(unreproduced), time.time() - t0))
    if not os.environ.get("VERIF_KEEP_SCRATCH"):
        shutil.rmtree(scratch, ignore_errors=True)
    # anti-vacuity demanded by the harness itself
    for k, v in acc["counters"].items():
        pass
    need = [m for m in meta if m.startswith("require_")]
    vac = []
    if not deadline_hit:
        for m in need:
            cname = m[len("require_"):]
            if acc["counters"].get(cname, 0) < int(meta[m]):
                vac.append("%s=%d < %s" % (cname, acc["counters"].get(cname, 0), meta[m]))
    if vac and not reported:
        print("HARNESS-ERROR: vacuous run (%s)" % "; ".join(vac))
        return 2
    return 1 if reported else 0


def try_json(s):
    try:
        return json.loads(s)
    except Exception:
        return s


if __name__ == "__main__":
    sys.exit(main())
