// C04 — centre lookup accepts exactly (k0, klast] and brackets the point.
#include "engine/vf.hpp"
#include "engine/tablegen.hpp"
#include <photospline/cinter/splinetable.h>
#include <memory>
#include <cfloat>

typedef photospline::splinetable<> Table;
static vf::Harness* H;

enum Xform { X_ID = 0, X_HUGE, X_TINY, X_NEG, X_DENORM, X_SHIFTBIG, X_N };
static const char* xname[] = {"id", "x1e300", "x1e-300", "negated", "denormal", "shift1e15"};

static std::vector<double> xform(std::vector<double> k, int x) {
  switch (x) {
    case X_HUGE: for (auto& v : k) v *= 1e300; break;
    case X_TINY: for (auto& v : k) v *= 1e-300; break;
    case X_NEG: { std::vector<double> r(k.rbegin(), k.rend()); for (auto& v : r) v = -v; k = r; break; }
    case X_DENORM: { // map the knot *ranks* onto consecutive multiples of the smallest denormal
      std::vector<double> r(k.size()); double cur = -3 * 4.9406564584124654e-324; r[0] = cur;
      for (size_t i = 1; i < k.size(); i++) { if (k[i] > k[i - 1]) cur += 4.9406564584124654e-324 * (1 + (i % 3)); r[i] = cur; }
      k = r; break; }
    case X_SHIFTBIG: for (auto& v : k) v += 1e15; break;
    default: break;
  }
  return k;
}

struct Cand { double x; const char* cls; };
static std::vector<Cand> candidates(const std::vector<double>& k, uint32_t order) {
  std::vector<Cand> c;
  for (auto& p : tg::point_classes(k, order)) c.push_back({p.x, p.cls});
  size_t n = k.size();
  c.push_back({k[0], "reject:k0"});
  c.push_back({std::nextafter(k[0], -INFINITY), "reject:below-k0"});
  c.push_back({std::nextafter(k[n - 1], INFINITY), "reject:above-last"});
  c.push_back({INFINITY, "special:+inf"}); c.push_back({-INFINITY, "special:-inf"});
  c.push_back({DBL_MAX, "special:+max"}); c.push_back({-DBL_MAX, "special:-max"});
  c.push_back({4.9406564584124654e-324, "special:+denorm"}); c.push_back({-4.9406564584124654e-324, "special:-denorm"});
  c.push_back({0.0, "special:+0"}); c.push_back({-0.0, "special:-0"});
  c.push_back({k[0] - (k[n - 1] - k[0]), "reject:far-below"}); c.push_back({k[n - 1] + (k[n - 1] - k[0]) + 1, "reject:far-above"});
  return c;
}

static void check(Table& t, const tg::TableSpec& s, const std::vector<double>& x, const std::string& tabkey, const std::string& cls) {
  size_t nd = s.dims.size();
  bool expect = true;
  for (size_t d = 0; d < nd; d++) { auto& k = s.dims[d].knots; if (!(x[d] > k[0] && x[d] <= k.back())) expect = false; }
  std::vector<int> c(nd, -12345), cc(nd, -12345);
  bool got = t.searchcenters(x.data(), c.data());
  struct splinetable st; st.data = &t;
  int gotc = tablesearchcenters(&st, x.data(), cc.data());
  H->count("evaluations");
  H->count(expect ? "accepted" : "rejected");
  H->cls(tabkey + "|" + cls);
  if (got != expect) { H->violation("accept-mismatch:" + cls, vf::fmt("[%s] x=%s expected %d got %d table=%s", tabkey.c_str(), vf::vecstr(x).c_str(), expect, got, s.describe().c_str())); return; }
  if ((gotc != 0) != got || (got && cc != c)) H->violation("c-wrapper-differs:" + cls, vf::fmt("[%s] x=%s", tabkey.c_str(), vf::vecstr(x).c_str()));
  double op = t(x.data());
  if (!got) {
    if (!(op == 0.0)) H->violation("call-operator-nonzero-on-reject:" + cls, vf::fmt("[%s] x=%s value=%g", tabkey.c_str(), vf::vecstr(x).c_str(), op));
    return;
  }
  for (size_t d = 0; d < nd; d++) {
    auto& D = s.dims[d]; auto& k = D.knots; int64_t o = D.order, na = D.naxes(), nk = k.size();
    std::string where = vf::fmt("[%s] dim=%zu x=%s c=%d table=%s", tabkey.c_str(), d, vf::hexd(x[d]).c_str(), c[d], s.describe().c_str());
    if (!(c[d] >= o && c[d] <= nk - o - 2)) { H->violation("center-out-of-range:" + cls, where); continue; }
    if (x[d] < k[o]) { if (c[d] != o) H->violation("left-margin-center:" + cls, where); }
    else if (x[d] >= k[na]) { if (c[d] != na - 1) H->violation("right-margin-center:" + cls, where); }
    else if (!(k[c[d]] <= x[d] && x[d] < k[c[d] + 1])) H->violation("center-does-not-bracket:" + cls, where);
  }
  double ev = t.ndsplineeval<float>(x.data(), c.data(), 0);
  if (memcmp(&ev, &op, sizeof ev) != 0 && !(ev == op)) H->violation("call-operator-differs:" + cls, vf::fmt("[%s] x=%s op=%.17g eval=%.17g", tabkey.c_str(), vf::vecstr(x).c_str(), op, ev));
  if (H->want_sample()) H->sample("{\"table\":" + s.describe() + ",\"x\":" + vf::vecstr(x) + ",\"centers\":" + vf::vecstr(c) + "}");
}

static bool g_thorough = false;
static int ncounts() { return g_thorough ? 8 : 4; }
static uint64_t count_for(uint32_t order, int c) { static const int q[] = {0, 1, 3, 8}; static const int t[] = {0, 1, 2, 3, 5, 8, 17, 40}; return 2 * order + 2 + (g_thorough ? t[c] : q[c]); }

static void run_d1(uint64_t idx) {
  vf::Radix R{6, tg::K_NPATTERNS, (uint64_t)ncounts(), X_N};
  auto v = R.decode(idx);
  uint32_t o = v[0];
  tg::TableSpec s;
  s.dims.push_back({o, xform(tg::make_knots(v[1], o, count_for(o, v[2])), v[3])});
  s.coeffs = tg::make_coeffs(1, s.ncoeffs(), H->seed, idx);
  std::string tabkey = vf::fmt("d=1:order=%u:knots=%s:count=+%d:%s", o, tg::pattern_name(v[1]), (int)(count_for(o, v[2]) - 2 * o - 2), xname[v[3]]);
  H->hint(tabkey);
  // lookup is a function of the knots alone: the stored extents (which a FITS file or a convolution may set to anything) and
  // periods must not influence it — the same walk for default extents, extents strictly inside the supported range, extents
  // reaching into both margins, extents far outside the knots, and inverted extents
  auto& k = s.dims[0].knots; size_t n = k.size(), na = s.dims[0].naxes();
  auto mid = [&](size_t i) { return k[i] + 0.5 * (k[i + 1] - k[i]); };
  for (int ev = 0; ev < 5; ev++) {
    s.extents.clear();
    if (ev == 1) s.extents = {mid(o), mid(na - 1)}; else if (ev == 2) s.extents = {mid(0), mid(n - 2)}; else if (ev == 3) s.extents = {k[0] - 10 * (k[n - 1] - k[0]) - 1, k[n - 1] + 10 * (k[n - 1] - k[0]) + 1}; else if (ev == 4) s.extents = {k[na], k[o]};
    static const char* EN[] = {"", ":extents=inside-support", ":extents=in-margins", ":extents=beyond-knots", ":extents=inverted"};
    Table t; tg::build(t, s);
    for (auto& c : candidates(k, o)) check(t, s, {c.x}, tabkey + EN[ev], c.cls);
  }
}

// six structural classes per axis for the conjunction over dimensions
static std::vector<Cand> six(const tg::DimSpec& D) {
  auto& k = D.knots; size_t n = k.size(), na = D.naxes(); uint32_t o = D.order;
  auto mid = [&](size_t i) { return k[i] + 0.5 * (k[i + 1] - k[i]); };
  return {{k[0], "reject-low"}, {mid(0), o ? "margin-low" : "interior"}, {mid(o), "interior"}, {k[na], "upper-end"}, {mid(n - 2), o ? "margin-high" : "interior"}, {std::nextafter(k[n - 1], INFINITY), "reject-high"}};
}
static void run_dn(int d, uint64_t idx) {
  uint64_t ncomb = 1; for (int i = 0; i < d; i++) ncomb *= 6;
  uint64_t tab = idx / ncomb, comb = idx % ncomb;
  // table alphabet: order vector from a small list, alternating knot patterns, minimal+{0,1} counts
  static const uint32_t ords[6][4] = {{0, 0, 0, 0}, {1, 2, 3, 4}, {2, 2, 2, 2}, {5, 0, 1, 3}, {3, 4, 5, 0}, {4, 1, 0, 2}};
  int cnt = tab % 2; const uint32_t* o = ords[(tab / 2) % 6];
  tg::TableSpec s;
  for (int i = 0; i < d; i++) s.dims.push_back({o[i], tg::make_knots((i + tab) % 3, o[i], count_for(o[i], cnt), i * 0.5)});
  s.coeffs = tg::make_coeffs(1, s.ncoeffs(), H->seed, tab);
  std::string tabkey = vf::fmt("d=%d:tab=%llu", d, (unsigned long long)tab);
  H->hint(tabkey);
  std::vector<double> x(d); std::string cls;
  for (int i = d - 1; i >= 0; i--) { auto S = six(s.dims[i]); x[i] = S[comb % 6].x; cls = std::string(S[comb % 6].cls) + (cls.empty() ? "" : ",") + cls; comb /= 6; }
  for (int ev = 0; ev < 2; ev++) {   // default extents, and extents that reach into the margins of every dimension
    s.extents.clear();
    if (ev) for (int i = 0; i < d; i++) { auto& k = s.dims[i].knots; s.extents.push_back(k[0] + 0.5 * (k[1] - k[0])); s.extents.push_back(k[k.size() - 2] + 0.5 * (k[k.size() - 1] - k[k.size() - 2])); }
    Table t; tg::build(t, s);
    check(t, s, x, tabkey + (ev ? ":extents=in-margins" : ""), cls);
  }
}

int main(int argc, char** argv) {
  vf::Harness h("C04", argc, argv);
  H = &h;
  g_thorough = h.thorough;
  h.meta("level", "exploration");
  h.meta("rule", "complete walk: d=1: 6 orders x 6 knot patterns x 4 knot counts x 6 magnitude transforms (identity, x1e300, x1e-300, negated, consecutive denormals, +1e15) x {default extents, extents inside the support, reaching into the margins, far beyond the knots, inverted} x every structural coordinate class (every knot, both float neighbours, interval midpoints and 1/7 points, k0, both outside neighbours, +-inf, +-DBL_MAX, +-denormal, +-0, far outside); d=2,3: 12 tables x full tensor of 6 classes per axis; oracle = independent specification of acceptance and bracketing; distinct = (table key, coordinate class tuple)");
  h.meta("assumption", "NaN coordinates are excluded by the property (they belong to C05)");
  h.meta("assumption", "termination is enforced by a 20 s per-case timer");
  h.meta("require_accepted", "1000");
  h.meta("require_rejected", "1000");
  h.add_space("d1", 6 * tg::K_NPATTERNS * ncounts() * X_N, run_d1);
  h.add_space("d2", 12 * 36, [](uint64_t i) { run_dn(2, i); });
  h.add_space("d3", 12 * 216, [](uint64_t i) { run_dn(3, i); });
  if (h.thorough) h.add_space("d4", 12 * 1296, [](uint64_t i) { run_dn(4, i); });
  return h.main();
}
