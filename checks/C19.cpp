// C19 — estimateMemory bounds the memory actually requested while loading and convolving.
#include "engine/vf.hpp"
#include "engine/tablegen.hpp"
#include "engine/alloc.hpp"
#include <photospline/splinetable.h>
typedef photospline::splinetable<> Table;
typedef photospline::splinetable<ta::TrackAlloc<void>> TTable;
static vf::Harness* H;

static void run_spec(tg::TableSpec& s, int d, int op, int naux, int lencls, int nconv, int cdim, const std::string& extra);
static void run_case(uint64_t idx) {
  static const vf::Radix R{6, 3, 4, 4, 8, 6};
  auto v = R.decode(idx);
  int d = 1 + v[0]; int op = v[1]; static const int NA[] = {0, 1, 10, 50}; int naux = NA[v[2]]; int lencls = v[3]; int nconv = 1 + v[4]; int cdim = v[5];
  if (cdim >= d) return;                       // every dimension index of this table
  if (nconv == 1 && cdim != 0) return;          // "no convolution" is one case per table
  tg::TableSpec s;
  for (int i = 0; i < d; i++) { uint32_t o = op == 0 ? 2 : (op == 1 ? (uint32_t)((i * 2 + 1) % 4) : (uint32_t)(i % 2 ? 0 : 3)); s.dims.push_back({o, tg::make_knots(tg::K_UNIFORM, o, 2 * o + 2 + 1 + (d <= 4 ? i : i % 2), 0.5 * i)}); }
  s.coeffs = tg::make_coeffs(1, s.ncoeffs(), H->seed, idx);
  run_spec(s, d, op, naux, lencls, nconv, cdim, "");
}
// The estimate ends with "round up to a KB and add one more": a term that is short by less than that slack is invisible on
// small tables. Here one dimension has a long knot vector (so every per-dimension term exceeds the slack on its own), no
// auxiliary keys (their pessimistic allowance is further slack), and the kernel knots make all pairwise knot sums distinct.
static void run_long(uint64_t idx) {
  static const vf::Radix R{3, 3, 3, 2, 5, 3};
  auto v = R.decode(idx);
  int d = 1 + v[0], ldim = v[1]; static const int LN[] = {140, 300, 517}; int ln = LN[v[2]]; int op = v[3]; static const int NC[] = {1, 2, 3, 5, 8}; int nconv = NC[v[4]]; int cdim = v[5];
  if (ldim >= d || cdim >= d) return;
  if (nconv == 1 && cdim != 0) return;
  tg::TableSpec s;
  for (int i = 0; i < d; i++) { uint32_t o = op == 0 ? 2 : (uint32_t)((i + 1) % 4); s.dims.push_back({o, tg::make_knots(tg::K_UNIFORM, o, i == ldim ? ln : (int)(2 * o + 2 + 1 + i), 0.5 * i)}); }
  s.coeffs = tg::make_coeffs(1, s.ncoeffs(), H->seed, idx);
  run_spec(s, d, op, 0, 0, nconv, cdim, vf::fmt(" long-dim=%d(%d knots)", ldim, ln));
}
static void run_spec(tg::TableSpec& s, int d, int op, int naux, int lencls, int nconv, int cdim, const std::string& extra) {
  std::string path = vf::fmt("c19_%d.fits", (int)getpid());
  {
    Table t; tg::build(t, s);
    for (int i = 0; i < naux; i++) {
      std::string key, val;
      switch (lencls) {
        case 0: key = vf::fmt("K%d", i); val = "v"; break;
        case 1: key = vf::fmt("KEY%05d", i); val = "12345678"; break;
        case 2: key = vf::fmt("KEY%05d", i); val = std::string(68, 'x'); break;                       // maximal standard card
        default: key = vf::fmt("LONGHIERARCHKEYNAME%011d", i); val = std::string(80 - (13 + key.size()), 'y'); break;   // maximal HIERARCH card
      }
      t.write_key(key.c_str(), val);
    }
    t.write_fits(path);
  }
  std::string where = vf::fmt("[d=%d orders=%d naux=%d lengths=%d convolution-knots=%d dim=%d%s]", d, op, naux, lencls, nconv, cdim, extra.c_str());
  H->hint(where);
  ta::Ledger& L = ta::ledger(); L.reset();
  size_t est = 0;
  try { est = TTable::estimateMemory(path, nconv, cdim); } catch (std::exception& e) { H->violation("estimateMemory-threw", where + " " + e.what()); remove(path.c_str()); return; }
  size_t peak = 0, after_load = 0;
  try {
    TTable t(path);
    after_load = L.live_bytes + sizeof(TTable);
    if (nconv > 1) { std::vector<double> kern; for (int i = 0; i < nconv; i++) kern.push_back(-0.4 + 0.8 * i / (nconv - 1) + 0.01 * i * i); t.convolve(cdim, kern.data(), kern.size()); }
    peak = L.high_water + sizeof(TTable);
  } catch (std::exception& e) { H->violation("load-or-convolve-threw", where + " " + e.what()); remove(path.c_str()); return; }
  remove(path.c_str());
  H->count("evaluations");
  long slack = (long)est - (long)peak;
  H->cls(vf::fmt("d=%d|naux=%d|len=%d|conv=%d|slack<%ld", d, naux, lencls, nconv > 1, slack < 0 ? 0 : (slack < 1024 ? 1024 : (slack < 4096 ? 4096 : 1000000))));
  if (slack < 4096) H->count("cases_with_slack_below_4KB");
  if (!extra.empty() && slack <= 2048) H->count("long_cases_with_slack_at_most_2KB");
  if (peak > est) H->violation(std::string("estimate-below-requested-memory:") + (naux ? vf::fmt("aux-keys=%d:lengths=%d", naux, lencls) : "no-aux") + (nconv > 1 ? ":convolved" : ":load-only"), where + vf::fmt(" estimate %zu bytes, peak requested %zu (after load %zu)", est, peak, after_load));
  for (auto& e : L.errors) { H->violation("allocator-misuse:" + e.substr(0, e.find(':')), where + " " + e); break; }
  if (L.live_bytes != 0) H->violation("storage-not-returned-on-destruction", where + vf::fmt(" %zu bytes live", L.live_bytes));
  if (H->want_sample()) H->sample(vf::fmt("{\"case\":\"%s\",\"estimate\":%zu,\"peak\":%zu}", where.c_str(), est, peak));
}

int main(int argc, char** argv) {
  vf::Harness h("C19", argc, argv);
  H = &h;
  h.meta("level", "exploration");
  h.meta("rule", "complete walk: files written by the library for d=1..6 x 3 order patterns (unequal axes) x {0,1,10,50} auxiliary keys x 4 key/value length classes (1 char, 8 chars, maximal standard card, maximal HIERARCH card) x {no convolution, 2..8 kernel knots} x every dimension index; each file is loaded into splinetable<TrackAlloc> and convolved as declared; the ledger's high-water mark of simultaneously live requested bytes plus sizeof(splinetable) must not exceed estimateMemory(path, n, dim); every block must be returned with its allocation size and element type, and nothing may stay live after destruction; space 'long': d=1..3 with one dimension of 140 / 300 / 517 knots (each position) x 2 order patterns x {no convolution, 2,3,5,8 kernel knots} x every dimension, no auxiliary keys, kernel knots chosen so that all pairwise knot sums are distinct - there the estimate's only slack is its final KB rounding (1025..2048 bytes), so any per-dimension term that is short shows; distinct = (dimension, aux class, convolved?, slack bucket)");
  h.meta("assumption", "requested bytes as seen by the allocator (no per-block overhead of a particular arena implementation)");
  h.meta("require_cases_with_slack_below_4KB", "50");
  h.timeout_s = 60;
  h.meta("require_long_cases_with_slack_at_most_2KB", "20");
  h.add_space("files", 6ull * 3 * 4 * 4 * 8 * 6, run_case);
  h.add_space("long", 3ull * 3 * 3 * 2 * 5 * 3, run_long);
  return h.main();
}
