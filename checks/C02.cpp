// C02 — derivative, gradient and arbitrary-order derivative evaluations are the true partials.
#include "engine/vf.hpp"
#include "engine/tablegen.hpp"
#include "engine/evalspace.hpp"
#include "ref/bspline_ref.hpp"
#include <photospline/cinter/splinetable.h>
using namespace es;
static vf::Harness* H;
// overwrite the stack below us before every evaluation call: scratch that a routine forgets to initialise must not be found
// pre-filled by the previous, similar call
static __attribute__((noinline)) void scrub() { static unsigned n = 0; volatile unsigned char buf[24576]; unsigned char v = (n++ & 1) ? 0xFF : 0x5A; for (size_t i = 0; i < sizeof buf; i++) buf[i] = v; }
#define SCR(e) (scrub(), (e))

static double tol_for(const ref::EvalResult& r, size_t nd, uint32_t maxorder, bool isfloat) {
  double eps = isfloat ? ldexp(1.0, -23) : ldexp(1.0, -52);
  double K = 4.0 * ((double)r.nterms + nd * (2.0 * maxorder + 4.0));
  double tiny = (isfloat ? 1.2e-38 : 2.3e-308) * (double)(nd + 2) * (1.0 + (double)r.cabs);
  return K * eps * (double)r.mag + tiny;
}

static bool strictly_increasing(const std::vector<double>& k) { for (size_t i = 1; i < k.size(); i++) if (!(k[i] > k[i - 1])) return false; return true; }

static std::string dcls(const std::vector<unsigned>& der) {
  unsigned mx = 0; int n = 0; for (auto p : der) { mx = std::max(mx, p); n += p > 0; }
  return vf::fmt("naxes-diff=%d:maxorder=%u", n, mx);
}

static void cmp(Built& b, const std::vector<double>& x, const std::vector<unsigned>& der, double impl, bool isfloat, const char* entry,
                const std::string& tabkey, const std::string& ptcls, bool expect_zero) {
  size_t nd = b.spec.dims.size();
  auto views = b.spec.views();
  ref::EvalResult r = ref::full_eval(views, b.spec.coeffs.data(), x.data(), der.data());
  double tol = tol_for(r, nd, b.maxorder, isfloat);
  H->count("evaluations");
  double err = fabs(impl - (double)r.value);
  // key: entry point + derivative class + coarse point class
  // a derivative of order >= 2 requested exactly on a knot at or above the upper end of the fully supported
  // range is its own failure class (the recursive definition is right-continuous everywhere)
  bool hi_on_upper_knot = false;
  for (size_t i = 0; i < nd; i++) {
    auto& D = b.spec.dims[i];
    if (der[i] >= 2 && x[i] >= D.knots[D.naxes()])
      for (size_t j = D.naxes(); j < D.knots.size(); j++) if (x[i] == D.knots[j]) hi_on_upper_knot = true;
  }
  if (!(err <= tol))
    H->violation(vf::fmt("mismatch:%s:%s:", entry, hi_on_upper_knot ? "order>=2-exactly-on-knot>=k[naxes]" : dcls(der).c_str()) + coarse(tabkey, ptcls),
                 vf::fmt("[%s pt=%s] %s der=%s x=%s impl=%.17g ref=%.17g err=%.3g tol=%.3g mag=%.3g table=%s", tabkey.c_str(), ptcls.c_str(), entry,
                         vf::vecstr(der).c_str(), vf::vecstr(x).c_str(), impl, (double)r.value, err, tol, (double)r.mag, b.spec.describe().c_str()));
  if (expect_zero) {
    H->count("above_order_zero_checks");
    if (!(impl == 0.0)) H->violation(vf::fmt("derivative-above-order-not-zero:%s:", entry) + coarse(tabkey, ptcls),
                                     vf::fmt("[%s pt=%s] %s der=%s x=%s impl=%.17g", tabkey.c_str(), ptcls.c_str(), entry, vf::vecstr(der).c_str(), vf::vecstr(x).c_str(), impl));
  }
}

// which derivative-order vectors to try through ndsplineeval_deriv
static std::vector<std::vector<unsigned>> deriv_vectors(const tg::TableSpec& s, bool full_cross) {
  size_t nd = s.dims.size();
  std::vector<std::vector<unsigned>> out;
  std::vector<unsigned> maxp(nd);
  for (size_t d = 0; d < nd; d++) maxp[d] = strictly_increasing(s.dims[d].knots) ? s.dims[d].order + 1 : std::min<unsigned>(1, s.dims[d].order + 1);
  if (full_cross) {
    std::vector<unsigned> cur(nd, 0);
    while (true) {
      out.push_back(cur);
      size_t d = 0;
      for (; d < nd; d++) { if (++cur[d] <= maxp[d]) break; cur[d] = 0; }
      if (d == nd) break;
    }
  } else {
    out.push_back(std::vector<unsigned>(nd, 0));
    for (size_t d = 0; d < nd; d++) for (unsigned p = 1; p <= maxp[d]; p++) { std::vector<unsigned> v(nd, 0); v[d] = p; out.push_back(v); }
    std::vector<unsigned> all(nd); for (size_t d = 0; d < nd; d++) all[d] = std::min(maxp[d], 1u); out.push_back(all);
  }
  return out;
}

static void check_point(Built& b, const std::vector<double>& x, const std::string& tabkey, const std::string& ptcls, int mode /*0 full masks+cross,1 masks+axis,2 sparse masks*/) {
  size_t nd = b.spec.dims.size();
  std::vector<int> c(nd);
  if (!b.nanpad->searchcenters(x.data(), c.data())) { H->count("lookup_rejected"); return; }
  Table& t = *b.nanpad;
  // ---- bitmask derivatives
  std::vector<int> masks;
  if (nd <= 4) for (int m = 1; m < (1 << nd); m++) masks.push_back(m);
  else { for (size_t i = 0; i < nd; i++) masks.push_back(1 << i); masks.push_back((1 << nd) - 1); }
  for (int m : masks) {
    std::vector<unsigned> der(nd); bool zero = false;
    for (size_t i = 0; i < nd; i++) { der[i] = (m >> i) & 1; if (der[i] && b.spec.dims[i].order == 0) zero = true; }
    cmp(b, x, der, SCR(t.ndsplineeval<float>(x.data(), c.data(), m)), true, "mask<float>", tabkey, ptcls, zero);
    cmp(b, x, der, SCR(t.ndsplineeval<double>(x.data(), c.data(), m)), false, "mask<double>", tabkey, ptcls, zero);
    double hp = b.hugepad->ndsplineeval<double>(x.data(), c.data(), m), np = t.ndsplineeval<double>(x.data(), c.data(), m);
    if (memcmp(&hp, &np, 8) && !(hp == np)) H->violation("padding-dependent-derivative:" + coarse(tabkey, ptcls), vf::fmt("[%s] mask=%d x=%s", tabkey.c_str(), m, vf::vecstr(x).c_str()));
  }
  // ---- gradient
  if (nd + 1 <= PHOTOSPLINE_MAXDIM) {
    for (int prec = 0; prec < 2; prec++) {
      std::vector<double> g(nd + 1, -1);
      scrub(); if (prec == 0) t.ndsplineeval_gradient<float>(x.data(), c.data(), g.data()); else t.ndsplineeval_gradient<double>(x.data(), c.data(), g.data());
      const char* e = prec == 0 ? "gradient<float>" : "gradient<double>";
      cmp(b, x, std::vector<unsigned>(nd, 0), g[0], prec == 0, prec == 0 ? "gradient-value<float>" : "gradient-value<double>", tabkey, ptcls, false);
      for (size_t i = 0; i < nd; i++) { std::vector<unsigned> der(nd, 0); der[i] = 1; cmp(b, x, der, g[1 + i], prec == 0, e, tabkey, ptcls, b.spec.dims[i].order == 0); }
    }
    if (nd <= 3) {  // C wrapper
      struct splinetable st; st.data = &t; std::vector<double> g(nd + 1, -1);
      scrub(); ndsplineeval_gradient(&st, x.data(), c.data(), g.data());
      for (size_t i = 0; i < nd; i++) { std::vector<unsigned> der(nd, 0); der[i] = 1; cmp(b, x, der, g[1 + i], true, "C:gradient", tabkey, ptcls, false); }
    }
  }
  // ---- arbitrary-order derivatives
  if (mode <= 1) {
    for (auto& der : deriv_vectors(b.spec, mode == 0)) {
      bool zero = false; for (size_t i = 0; i < nd; i++) if (der[i] > b.spec.dims[i].order) zero = true;
      // on-knot class for the known one-sided issue of derivative orders >= 2
      std::string pc = ptcls;
      cmp(b, x, der, SCR(t.ndsplineeval_deriv(x.data(), c.data(), der.data())), true, "deriv", tabkey, pc, zero);
      if (nd <= 2) { struct splinetable st; st.data = &t; cmp(b, x, der, SCR(ndsplineeval_deriv(&st, x.data(), c.data(), der.data())), true, "C:deriv", tabkey, pc, zero); }
    }
    double dn = t.ndsplineeval_deriv(x.data(), c.data(), nullptr);
    cmp(b, x, std::vector<unsigned>(nd, 0), dn, true, "deriv(null)", tabkey, ptcls, false);
  }
  H->cls(tabkey + "|" + ptcls);
  if (H->want_sample()) H->sample("{\"table\":" + b.spec.describe() + ",\"x\":" + vf::vecstr(x) + "}");
}

static void run_d1(uint64_t idx) {
  static const vf::Radix R{6, tg::K_NPATTERNS, 3, 3};
  auto v = R.decode(idx);
  uint32_t order = v[0]; int pat = v[1], cnt = v[2], ck = v[3];
  tg::TableSpec s;
  s.dims.push_back({order, tg::make_knots(pat, order, count_for(order, cnt))});
  std::string tabkey = vf::fmt("d=1:order=%u:knots=%s:count=%s", order, tg::pattern_name(pat), count_name(cnt));
  H->hint(tabkey);
  auto pts = tg::point_classes(s.dims[0].knots, order);
  uint64_t na = s.dims[0].naxes();
  int nvariants = (ck == 2) ? (int)na : 1;
  for (int var = 0; var < nvariants; var++) {
    if (ck == 2) { s.coeffs.assign(na, 0.f); s.coeffs[var] = 1.f; }
    else s.coeffs = tg::make_coeffs(ck + 1, na, H->seed, idx);
    auto b = make(s);
    for (auto& p : pts) check_point(*b, {p.x}, tabkey, p.cls, 0);
  }
}
static void run_d2(uint64_t idx, bool thorough) {
  int npat = thorough ? tg::K_NPATTERNS : 3;
  vf::Radix R{6, 6, (uint64_t)npat, 2, 2};
  auto v = R.decode(idx);
  uint32_t o[2] = {(uint32_t)v[0], (uint32_t)v[1]};
  int pat = v[2]; int cnt[2] = {(int)v[3], (int)v[4]};
  tg::TableSpec s;
  s.dims.push_back({o[0], tg::make_knots(pat, o[0], count_for(o[0], cnt[0]))});
  s.dims.push_back({o[1], tg::make_knots((pat + 1) % npat, o[1], count_for(o[1], cnt[1]), -2.5)});
  s.coeffs = tg::make_coeffs(1, s.ncoeffs(), H->seed, idx);
  std::string tabkey = vf::fmt("d=2:orders=%u,%u:knots=%s:count=%s,%s", o[0], o[1], tg::pattern_name(pat), count_name(cnt[0]), count_name(cnt[1]));
  H->hint(tabkey);
  auto b = make(s);
  auto p0 = tg::point_classes(s.dims[0].knots, o[0], true), p1 = tg::point_classes(s.dims[1].knots, o[1], true);
  for (auto& a : p0) for (auto& c : p1) check_point(*b, {a.x, c.x}, tabkey, std::string(a.cls) + "," + c.cls, 0);
}
static void run_d3(uint64_t idx) {
  static const vf::Radix R{6, 6, 6, 2};
  auto v = R.decode(idx);
  tg::TableSpec s; int cnt = v[3];
  static const int pats[3] = {tg::K_UNIFORM, tg::K_IRREGULAR, tg::K_UNIFORM};
  for (int d = 0; d < 3; d++) s.dims.push_back({(uint32_t)v[d], tg::make_knots(pats[d], v[d], count_for(v[d], cnt), d * 1.5)});
  s.coeffs = tg::make_coeffs(1, s.ncoeffs(), H->seed, idx);
  std::string tabkey = vf::fmt("d=3:orders=%u,%u,%u:count=%s", (unsigned)v[0], (unsigned)v[1], (unsigned)v[2], count_name(cnt));
  H->hint(tabkey);
  auto b = make(s);
  std::vector<tg::Pt> P[3];
  for (int d = 0; d < 3; d++) P[d] = five_points(s.dims[d]);
  for (auto& a : P[0]) for (auto& c : P[1]) for (auto& e : P[2])
    check_point(*b, {a.x, c.x, e.x}, tabkey, std::string(a.cls) + "," + c.cls + "," + e.cls, 1);
}
static void run_hi(int d, uint64_t idx, bool thorough) {
  auto ps = hi_patterns(d, thorough);
  uint64_t npts = 1; for (int i = 0; i < d; i++) npts *= 3;
  npts += 2 * d;
  uint64_t pi = idx % npts; uint64_t rest = idx / npts;
  int cnt = rest % 2; uint64_t pat = rest / 2;
  const HiPattern& hp = ps[pat];
  Built& b = hi_table(d, hp, cnt, H->seed);
  std::string tabkey = vf::fmt("d=%d:orders=%s:count=%s", d, hp.name ? hp.name : vf::fmt("all%u", hp.orders[0]).c_str(), count_name(cnt));
  H->hint(tabkey);
  std::vector<double> x(d); std::string cls;
  for (int i = 0; i < d; i++) {
    auto P = five_points(b.spec.dims[i]);
    int sel;
    if (pi < npts - 2 * d) { uint64_t t = pi; for (int j = d - 1; j > i; j--) t /= 3; sel = t % 3; }
    else { uint64_t q = pi - (npts - 2 * d); sel = ((int)(q / 2) == i) ? 3 + (q % 2) : 1; }
    x[i] = P[sel].x; cls += (i ? "," : ""); cls += P[sel].cls[0] == 'k' ? (sel == 3 ? "K" : "N") : (P[sel].cls[0] == 'l' ? "L" : (P[sel].cls[0] == 'r' ? "R" : "I"));
  }
  check_point(b, x, tabkey, cls, d == 4 ? 1 : 2);
}

int main(int argc, char** argv) {
  vf::Harness h("C02", argc, argv);
  H = &h;
  h.meta("level", "exploration");
  h.meta("rule", "complete walk of the C01 table x point-class spaces for d=1..7; per point: every derivative bitmask (all 2^d-1 for d<=4, single bits + all bits above) in float and double, value+gradient in both precisions (every lane), C gradient wrapper, ndsplineeval_deriv with per-axis derivative orders 0..order+1 (full cross product for d<=2, one axis raised at a time for d=3,4; orders >=2 only on strictly increasing knots) incl. the C wrapper and the null-pointer form; oracle = exact derivative of the reference B-spline by the long-double derivative recursion with the property's one-sided convention, tolerance scaled by pre-cancellation magnitudes; derivative order above the spline order must be exactly 0; distinct = (table key, point-class tuple)");
  h.meta("assumption", "reference: ref/bspline_ref.hpp; tolerance DESIGN Appendix B");
  h.meta("deadline_quick", "900");
  h.meta("deadline_thorough", "2400");
  h.meta("require_above_order_zero_checks", "1000");
  h.timeout_s = 120;
  bool T = h.thorough;
  h.add_space("d1", 6 * tg::K_NPATTERNS * 3 * 3, run_d1);
  h.add_space("d2", 6 * 6 * (T ? tg::K_NPATTERNS : 3) * 2 * 2, [T](uint64_t i) { run_d2(i, T); });
  h.add_space("d3", 6 * 6 * 6 * 2, run_d3);
  for (int d = 4; d <= 7; d++) {
    uint64_t npts = 1; for (int i = 0; i < d; i++) npts *= 3;
    npts += 2 * d;
    uint64_t np = hi_patterns(d, T).size();
    h.add_space(vf::fmt("d%d", d), np * 2 * npts, [d, T](uint64_t i) { run_hi(d, i, T); });
  }
  return h.main();
}
