// C03 — the result is independent of the evaluation path (bit identity across entry points).
// Compiled four times: {library PUBLIC flags, ASan} x {with, without PHOTOSPLINE_NO_EVAL_TEMPLATES}.
#include "engine/vf.hpp"
#include "engine/tablegen.hpp"
#include "engine/evalspace.hpp"
#include <photospline/cinter/splinetable.h>
using namespace es;
static vf::Harness* H;
// Uninitialised-scratch bugs hide when two evaluation paths run back to back with the same frame layout: the second finds the
// first one's values still on the stack. Every call is therefore preceded by overwriting the stack below us with a pattern
// (NaN-like 0xFF bytes and 0x5A bytes alternately).
static __attribute__((noinline)) void scrub() { static unsigned n = 0; volatile unsigned char buf[24576]; unsigned char v = (n++ & 1) ? 0xFF : 0x5A; for (size_t i = 0; i < sizeof buf; i++) buf[i] = v; }
#define SCR(e) (scrub(), (e))
#ifndef C03_VARIANT
#define C03_VARIANT "unknown"
#endif

static bool same(double a, double b) { return memcmp(&a, &b, sizeof a) == 0; }

// ---- which core did get_evaluator pick?  (addresses of the member templates)
template <typename Float> struct Disp {
  typedef double (Table::*EP)(const int*, int, photospline::detail::buffer2d<Float>) const;
  template <unsigned D> static void addD(std::vector<std::pair<EP, std::string>>& v) {
#ifndef PHOTOSPLINE_NO_EVAL_TEMPLATES
    v.push_back({&Table::ndsplineeval_coreD_FixedOrder<Float, D, 2>, vf::fmt("FixedOrder<D=%u,O=2>", D)});
    v.push_back({&Table::ndsplineeval_coreD_FixedOrder<Float, D, 3>, vf::fmt("FixedOrder<D=%u,O=3>", D)});
    v.push_back({&Table::ndsplineeval_coreD<Float, D>, vf::fmt("coreD<D=%u>", D)});
#endif
  }
  static std::string name(EP p) {
    static std::vector<std::pair<EP, std::string>> v;
    if (v.empty()) {
      v.push_back({&Table::template ndsplineeval_core<Float>, "generic"});
      addD<1>(v); addD<2>(v); addD<3>(v); addD<4>(v); addD<5>(v); addD<6>(v); addD<7>(v); addD<8>(v);
#ifndef PHOTOSPLINE_NO_EVAL_TEMPLATES
      v.push_back({&Table::ndsplineeval_core_KnownOrder<Float, 2, 2, 2, 3, 2, 2>, "KnownOrder<222322>"});
      v.push_back({&Table::ndsplineeval_core_KnownOrder<Float, 2, 2, 2, 5, 2, 2>, "KnownOrder<222522>"});
#endif
    }
    for (auto& e : v) if (e.first == p) return e.second;
    return "unknown";
  }
};

struct Pat { std::string name; std::vector<uint32_t> orders; };
static std::vector<Pat> patterns(int d, bool thorough, long seed) {
  std::vector<Pat> ps;
  int maxconst = d <= 5 ? 5 : (d <= 7 ? (thorough ? 5 : 3) : (d == 8 ? (thorough ? 4 : 2) : (thorough ? 3 : 2)));
  for (int k = 0; k <= maxconst; k++) ps.push_back({vf::fmt("all%d", k), std::vector<uint32_t>(d, k)});
  if (d == 6) { ps.push_back({"known-222322", {2, 2, 2, 3, 2, 2}}); ps.push_back({"known-222522", {2, 2, 2, 5, 2, 2}}); ps.push_back({"near-known-222422", {2, 2, 2, 4, 2, 2}}); ps.push_back({"near-known-223222", {2, 2, 3, 2, 2, 2}}); }
  // every shortcut get_evaluator can take deserves near misses: the known mixed patterns as a proper prefix or suffix of a longer
  // order vector, and truncated to fewer dimensions
  static const uint32_t K3[6] = {2, 2, 2, 3, 2, 2}, K5[6] = {2, 2, 2, 5, 2, 2};
  if (d > 6) {
    { std::vector<uint32_t> o(K3, K3 + 6); while ((int)o.size() < d) o.push_back(2); ps.push_back({"known-222322-as-prefix", o}); }
    { std::vector<uint32_t> o(K5, K5 + 6); while ((int)o.size() < d) o.push_back(1 + o.size() % 2); ps.push_back({"known-222522-as-prefix", o}); }
    { std::vector<uint32_t> o; while ((int)o.size() < d - 6) o.push_back(2); o.insert(o.end(), K3, K3 + 6); ps.push_back({"known-222322-as-suffix", o}); }
  }
  if (d == 4 || d == 5) { ps.push_back({"known-222322-truncated", std::vector<uint32_t>(K3, K3 + d)}); ps.push_back({"known-222522-truncated", std::vector<uint32_t>(K5, K5 + d)}); }
  if (d > 1) {
    { std::vector<uint32_t> o(d, 2); o[d - 1] = 3; ps.push_back({"all2-last3", o}); }
    { std::vector<uint32_t> o(d, 3); o[0] = 2; ps.push_back({"all3-first2", o}); }
    for (int m = 0; m < 3; m++) {  // seeded mixed patterns (orders capped so that the table stays small)
      std::vector<uint32_t> o(d); int cap = d <= 5 ? 6 : (d <= 7 ? 4 : 3);
      for (int i = 0; i < d; i++) o[i] = vf::mix64(seed * 977 + d * 31 + m * 7 + i) % cap;
      ps.push_back({vf::fmt("mixed%d", m), o});
    }
  }
  return ps;
}

struct PtC { std::vector<double> x; std::string cls; };
static std::vector<PtC> points(const tg::TableSpec& s, long seed, uint64_t salt) {
  size_t d = s.dims.size();
  std::vector<PtC> out;
  std::vector<std::vector<tg::Pt>> P(d);
  for (size_t i = 0; i < d; i++) P[i] = five_points(s.dims[i]);
  for (int all = 0; all < 5; all++) { PtC p; for (size_t i = 0; i < d; i++) p.x.push_back(P[i][all].x); p.cls = vf::fmt("all-axes=%s", P[0][all].cls); out.push_back(p); }
  for (size_t ax = 0; ax < d; ax++) for (int c = 0; c < 5; c++) { if (c == 1) continue; PtC p; for (size_t i = 0; i < d; i++) p.x.push_back(P[i][i == ax ? c : 1].x); p.cls = vf::fmt("one-axis=%s", P[ax][c].cls); out.push_back(p); }
  for (int r = 0; r < 16; r++) {
    PtC p;
    for (size_t i = 0; i < d; i++) { auto& k = s.dims[i].knots; double u = vf::u01(seed, salt * 1000003 + r * 131 + i); double x = k.front() + (k.back() - k.front()) * u; if (!(x > k.front())) x = k.back(); p.x.push_back(x); }
    p.cls = "seeded";
    out.push_back(p);
  }
  return out;
}

template <typename Float>
static void compare_paths(Table& t, const tg::TableSpec& s, const PtC& p, const std::string& tabkey, const char* prec) {
  size_t nd = s.dims.size();
  auto ev = t.get_evaluator<Float>();
  std::string disp = Disp<Float>::name(ev.eval_ptr);
  H->cls(std::string(C03_VARIANT) + "|" + tabkey + "|" + prec + "|" + disp + "|" + p.cls);
  H->count(("dispatch_" + disp.substr(0, disp.find('<'))).c_str());
  const double* x = p.x.data();
  std::vector<int> c(nd, -1), c2(nd, -2), c3(nd, -3);
  bool ok = t.searchcenters(x, c.data()), ok2 = ev.searchcenters(x, c2.data());
  struct splinetable st; st.data = &t;
  bool ok3 = tablesearchcenters(&st, x, c3.data()) != 0;
  std::string where = vf::fmt("[%s %s %s disp=%s pt=%s] x=%s", C03_VARIANT, tabkey.c_str(), prec, disp.c_str(), p.cls.c_str(), vf::vecstr(p.x).c_str());
  std::string kc = std::string(":") + prec + ":" + disp.substr(0, disp.find('<'));
  if (ok != ok2 || ok != ok3 || (ok && (c != c2 || c != c3))) { H->violation("centers-differ" + kc, where); return; }
  if (!ok) return;
  std::vector<int> masks{0};
  for (size_t i = 0; i < nd; i++) masks.push_back(1 << i);
  if (nd > 1) masks.push_back((1 << nd) - 1);
  for (int m : masks) {
    double a = SCR(t.ndsplineeval<Float>(x, c.data(), m));
    double b = SCR(ev.ndsplineeval(x, c.data(), m));
    double e = SCR(ev(x, m));
    H->count("evaluations", 3);
    if (!same(a, b)) H->violation("member-vs-evaluator" + kc + (m ? ":derivative" : ":value"), where + vf::fmt(" mask=%d member=%.17g evaluator=%.17g", m, a, b));
    if (!same(a, e)) H->violation("member-vs-evaluator-call-operator" + kc, where + vf::fmt(" mask=%d member=%.17g ev()=%.17g", m, a, e));
    if (sizeof(Float) == 4) {
      double cw = SCR(ndsplineeval(&st, x, c.data(), m));
      if (!same(a, cw)) H->violation("member-vs-C-wrapper" + kc, where + vf::fmt(" mask=%d member=%.17g C=%.17g", m, a, cw));
      if (m == 0) { double op = SCR(t(x)); if (!same(a, op)) H->violation("member-vs-call-operator" + kc, where + vf::fmt(" member=%.17g op()=%.17g", a, op)); }
    }
  }
  if (nd + 1 <= PHOTOSPLINE_MAXDIM) {
    std::vector<double> g1(nd + 1, -1), g2(nd + 1, -2), g3(nd + 1, -3);
    scrub(); t.ndsplineeval_gradient<Float>(x, c.data(), g1.data());
    scrub(); ev.ndsplineeval_gradient(x, c.data(), g2.data());
    H->count("evaluations", 2);
    for (size_t i = 0; i <= nd; i++) if (!same(g1[i], g2[i])) H->violation("gradient-member-vs-evaluator" + kc, where + vf::fmt(" lane=%zu member=%.17g evaluator=%.17g", i, g1[i], g2[i]));
    double v = SCR(t.ndsplineeval<Float>(x, c.data(), 0));
    if (!same(g1[0], v)) H->violation("gradient-value-lane-vs-value" + kc, where + vf::fmt(" lane0=%.17g value=%.17g", g1[0], v));
    if (!same(g2[0], v)) H->violation("evaluator-gradient-value-lane-vs-value" + kc, where + vf::fmt(" lane0=%.17g value=%.17g", g2[0], v));
    if (sizeof(Float) == 4) {
      scrub(); ndsplineeval_gradient(&st, x, c.data(), g3.data());
      for (size_t i = 0; i <= nd; i++) if (!same(g1[i], g3[i])) H->violation("gradient-member-vs-C-wrapper" + kc, where + vf::fmt(" lane=%zu", i));
    }
  }
  if (sizeof(Float) == 4) {  // the member ndsplineeval_deriv works in single precision
    std::vector<std::vector<unsigned>> ders;
    ders.push_back(std::vector<unsigned>(nd, 0)); ders.push_back(std::vector<unsigned>(nd, 1));
    for (size_t i = 0; i < nd; i++) { std::vector<unsigned> v(nd, 0); v[i] = 2; ders.push_back(v); }
    for (auto& der : ders) {
      double a = SCR(t.ndsplineeval_deriv(x, c.data(), der.data())), b = SCR(ev.ndsplineeval_deriv(x, c.data(), der.data())), cw = SCR(ndsplineeval_deriv(&st, x, c.data(), der.data()));
      H->count("evaluations", 3);
      if (!same(a, b)) H->violation("deriv-member-vs-evaluator" + kc, where + vf::fmt(" der=%s member=%.17g evaluator=%.17g", vf::vecstr(der).c_str(), a, b));
      if (!same(a, cw)) H->violation("deriv-member-vs-C-wrapper" + kc, where + vf::fmt(" der=%s", vf::vecstr(der).c_str()));
    }
  }
}

static void run_case(int d, uint64_t idx, bool thorough) {
  auto ps = patterns(d, thorough, H->seed);
  uint64_t pat = idx / 2; int cnt = idx % 2;
  const Pat& P = ps[pat];
  tg::TableSpec s;
  for (int i = 0; i < d; i++) s.dims.push_back({P.orders[i], tg::make_knots(i % 3 == 1 ? tg::K_IRREGULAR : (i % 3 == 2 ? tg::K_DOUBLE : tg::K_UNIFORM), P.orders[i], count_for(P.orders[i], cnt == 0 ? 1 : 2), 0.5 * i)});
  s.coeffs = tg::make_coeffs(1, s.ncoeffs(), H->seed, idx + 100 * d);
  std::string tabkey = vf::fmt("d=%d:%s:count=%s", d, P.name.c_str(), cnt == 0 ? "min+1" : "min+3");
  H->hint(tabkey);
  Table t; tg::build(t, s);
  for (auto& p : points(s, H->seed, idx + 100 * d)) {
    compare_paths<float>(t, s, p, tabkey, "float");
    compare_paths<double>(t, s, p, tabkey, "double");
  }
  if (H->want_sample()) H->sample("{\"variant\":\"" C03_VARIANT "\",\"table\":\"" + tabkey + "\",\"orders\":" + vf::vecstr(P.orders) + ",\"dispatch_float\":\"" + Disp<float>::name(t.get_evaluator<float>().eval_ptr) + "\"}");
}

int main(int argc, char** argv) {
  vf::Harness h("C03", argc, argv);
  H = &h;
  h.meta("level", "exploration");
  h.meta("extra_binaries", "C03nt,C03asan,C03asannt");
  h.meta("rule", "four builds of one harness ({library PUBLIC flags -O3 -msse..-mno-avx, ASan -O1} x {with, without PHOTOSPLINE_NO_EVAL_TEMPLATES}); in each: d=1..9 x order patterns {all k, the two known mixed patterns, near misses, and the known patterns as prefix / suffix of longer and truncated to shorter order vectors, all2-last3, all3-first2, three seeded mixed} x 2 knot counts x (5 all-axes structural points + 4 one-axis-special points per axis + 16 seeded points) x {float,double}; memcmp of centres, value, every single-bit and the all-bits derivative, evaluator call operator, table call operator, C wrapper, every gradient lane (member vs evaluator vs C), gradient value lane vs plain value, ndsplineeval_deriv (member vs evaluator<float> vs C); the selected core is identified by comparing eval_ptr with the member-template addresses; distinct = (build, table key, precision, selected core, point class)");
  h.meta("assumption", "bit identity is asserted under the compilers/flags used here (g++ 12, the library's own PUBLIC options, and -O1+ASan); other compilers or -ffast-math are outside");
  h.meta("deadline_quick", "900");
  h.meta("deadline_thorough", "2400");
#ifndef PHOTOSPLINE_NO_EVAL_TEMPLATES
  h.meta("require_dispatch_FixedOrder", "100");
  h.meta("require_dispatch_coreD", "100");
  h.meta("require_dispatch_KnownOrder", "10");
#endif
  h.meta("require_dispatch_generic", "100");
  h.timeout_s = 300;
  bool T = h.thorough;
  for (int d = 1; d <= 9; d++) h.add_space(vf::fmt("d%d", d), 2 * patterns(d, T, h.seed).size(), [d, T](uint64_t i) { run_case(d, i, T); });
  return h.main();
}
