// C07 — reading any bytes either fails cleanly or yields a safe, well-formed table.
#include "engine/vf.hpp"
#include "engine/tablegen.hpp"
#include "engine/evalspace.hpp"
#include "ref/fits_ref.hpp"
#include <photospline/cinter/splinetable.h>
#include <fstream>
#include <cfloat>
#include <sys/stat.h>
using namespace es;
static vf::Harness* H;

// ---------------------------------------------------------------- seeds (independent writer: every HDU boundary is known)
struct Seed { const char* name; fr::Decoded d; fr::Bytes bytes; std::vector<fr::HDU> hdus; };
static std::vector<Seed>& seeds() {
  static std::vector<Seed> S;
  if (!S.empty()) return S;
  auto mk = [](const char* name, std::vector<uint32_t> orders, std::vector<uint64_t> naxes, int naux, bool periods, bool custom_ext) {
    Seed s; s.name = name; fr::Decoded& d = s.d; d.ndim = orders.size(); d.order = orders; d.naxes = naxes;
    uint64_t nc = 1;
    for (size_t i = 0; i < orders.size(); i++) {
      d.knots.push_back(tg::make_knots(i % 2 ? tg::K_IRREGULAR : tg::K_UNIFORM, orders[i], naxes[i] + orders[i] + 1, 0.5 * i)); nc *= naxes[i];
      d.extents.push_back(custom_ext ? d.knots[i].front() - 1 : d.knots[i][orders[i]]); d.extents.push_back(custom_ext ? d.knots[i].back() + 2 : d.knots[i][naxes[i]]);
      if (periods) d.periods.push_back(i ? 0.0 : 360.0);
    }
    d.has_extents = true;
    for (uint64_t j = 0; j < nc; j++) d.coeffs.push_back((float)(0.25 + 0.5 * (j % 7) - 0.125 * (j % 3)));
    for (int i = 0; i < naux; i++) d.aux.push_back({vf::fmt("AUX%d", i), vf::fmt("v%d", i)});
    s.bytes = fr::encode(d); s.hdus = fr::parse(s.bytes);
    return s;
  };
  S.push_back(mk("1d-order2", {2}, {5}, 0, false, false));
  S.push_back(mk("2d-orders23-aux", {2, 3}, {6, 5}, 3, false, false));
  S.push_back(mk("3d-extents-period", {1, 2, 0}, {4, 5, 3}, 1, true, true));
  return S;
}

// ---------------------------------------------------------------- mutations
struct Mut { std::string cls; std::function<fr::Bytes(const Seed&)> make; };

static void set_card(fr::Bytes& b, size_t off, const std::string& text) { std::string c = text; c.resize(80, ' '); memcpy(&b[off], c.data(), 80); }
static std::string card_key(const fr::Bytes& b, size_t off) { return fr::rtrim(std::string((const char*)&b[off], 8)); }
static bool structural(const std::string& k) {
  static const char* pre[] = {"NAXIS", "BITPIX", "ORDER", "PERIOD", "EXTNAME", "XTENSION", "PCOUNT", "GCOUNT", "EXTEND", "SIMPLE"};
  for (auto p : pre) if (k.compare(0, strlen(p), p) == 0) return true;
  return false;
}
static void put_be_double(fr::Bytes& b, size_t off, double d) { uint64_t v; memcpy(&v, &d, 8); for (int i = 0; i < 8; i++) b[off + i] = (v >> (8 * (7 - i))) & 0xff; }

static std::vector<Mut> mutations(const Seed& s, bool thorough, bool all_bytes) {
  std::vector<Mut> M;
  const auto& H0 = s.hdus;
  // ---- M1: header cards
  for (size_t h = 0; h < H0.size(); h++) {
    size_t ncards = H0[h].cards.size();
    for (size_t c = 0; c <= ncards; c++) {  // c == ncards is the END card
      size_t off = H0[h].header_off + 80 * c;
      std::string key = card_key(s.bytes, off);
      std::string kcls = key.substr(0, key.find_first_of("0123456789"));
      std::string where = vf::fmt("hdu%zu:%s", h, h == 0 ? kcls.c_str() : kcls.c_str());
      M.push_back({"card-delete:" + where, [off](const Seed& s) { fr::Bytes b = s.bytes; size_t blk_end = (off / 2880 + 1) * 2880; memmove(&b[off], &b[off + 80], blk_end - off - 80); memset(&b[blk_end - 80], ' ', 80); return b; }});
      M.push_back({"card-duplicate:" + where, [off](const Seed& s) { fr::Bytes b = s.bytes; size_t blk_end = (off / 2880 + 1) * 2880; memmove(&b[off + 80], &b[off], blk_end - off - 80); return b; }});
      if (key == "END") continue;
      M.push_back({"card-blank-value:" + where, [off](const Seed& s) { fr::Bytes b = s.bytes; memset(&b[off + 10], ' ', 70); return b; }});
      if (structural(key) || thorough) {
        static const char* vals[] = {"0", "1", "-1", "2", "7", "2147483648", "99999999999", "-32", "'text    '", "T", "1.5", "NaN"};
        for (auto v : vals) { std::string vs = v; M.push_back({"card-value=" + vs + ":" + where, [off, key, vs](const Seed& s) { fr::Bytes b = s.bytes; std::string k = key; k.resize(8, ' '); char line[96]; snprintf(line, sizeof line, "%s= %20s", k.c_str(), vs.c_str()); set_card(b, off, line); return b; }}); }
      }
      M.push_back({"card-rename:" + where, [off](const Seed& s) { fr::Bytes b = s.bytes; b[off] = 'Z'; return b; }});
      // legal FITS that the library itself never writes: a card that is entirely blank, a blank keyword with text, a blank card
      // inserted in front of this one, a COMMENT / HISTORY / CONTINUE card inserted in front of this one
      M.push_back({"card-all-blank:" + where, [off](const Seed& s) { fr::Bytes b = s.bytes; memset(&b[off], ' ', 80); return b; }});
      M.push_back({"card-blank-keyword:" + where, [off](const Seed& s) { fr::Bytes b = s.bytes; memset(&b[off], ' ', 8); return b; }});
      for (const char* ins : {"", "COMMENT   free text", "HISTORY   something happened", "CONTINUE  'more'", "        = 'value without keyword'"}) {
        std::string text = ins;
        M.push_back({"card-insert:" + std::string(text.empty() ? "blank" : text.substr(0, text.find(' '))) + (text.compare(0, 8, "        ") == 0 && !text.empty() ? "no-keyword" : "") + ":before-" + where, [off, text](const Seed& s) { fr::Bytes b = s.bytes; size_t blk_end = (off / 2880 + 1) * 2880; if (std::string((const char*)&b[blk_end - 80], 80).find_first_not_of(' ') != std::string::npos) return b; memmove(&b[off + 80], &b[off], blk_end - off - 80); set_card(b, off, text); return b; }});
      }
    }
  }
  // ---- M2: extensions
  for (size_t h = 1; h < H0.size(); h++) {
    std::string en = H0[h].extname.substr(0, H0[h].extname.find_first_of("0123456789"));
    M.push_back({"ext-drop:" + en, [h](const Seed& s) { fr::Bytes b = s.bytes; b.erase(b.begin() + s.hdus[h].header_off, b.begin() + s.hdus[h].padded_end); return b; }});
    M.push_back({"ext-duplicate:" + en, [h](const Seed& s) { fr::Bytes b = s.bytes; b.insert(b.begin() + s.hdus[h].padded_end, s.bytes.begin() + s.hdus[h].header_off, s.bytes.begin() + s.hdus[h].padded_end); return b; }});
    for (size_t g = h + 1; g < H0.size(); g++)
      M.push_back({"ext-swap:" + en, [h, g](const Seed& s) { fr::Bytes b(s.bytes.begin(), s.bytes.begin() + s.hdus[h].header_off); b.insert(b.end(), s.bytes.begin() + s.hdus[g].header_off, s.bytes.begin() + s.hdus[g].padded_end); b.insert(b.end(), s.bytes.begin() + s.hdus[h].padded_end, s.bytes.begin() + s.hdus[g].header_off); b.insert(b.end(), s.bytes.begin() + s.hdus[h].header_off, s.bytes.begin() + s.hdus[h].padded_end); b.insert(b.end(), s.bytes.begin() + s.hdus[g].padded_end, s.bytes.end()); return b; }});
    for (int delta : {-1, +1, +400}) M.push_back({vf::fmt("ext-resize%+d:", delta) + en, [h, delta](const Seed& s) {
      // rebuild the file with this extension's vector shortened / extended (data kept consistent with its own header)
      fr::Decoded d = s.d; std::vector<double>* v = nullptr;
      if (s.hdus[h].extname == "EXTENTS") v = &d.extents; else v = &d.knots[atoi(s.hdus[h].extname.c_str() + 5)];
      if (delta < 0) v->pop_back(); else for (int i = 0; i < delta; i++) v->push_back(v->back() + 1.0);
      fr::WriteOpts o; fr::Bytes b;
      { fr::Decoded dd = d; if (s.hdus[h].extname == "EXTENTS") { /* encode() only writes EXTENTS of the right size: write by hand */ dd.extents.clear(); b = fr::encode(dd, o); fr::W w; w.card("XTENSION= 'IMAGE   '"); w.card(fr::W::kv("BITPIX", "-64")); w.card(fr::W::kv("NAXIS", "1")); w.card(fr::W::kv("NAXIS1", std::to_string(d.extents.size()))); w.card(fr::W::kv("PCOUNT", "0")); w.card(fr::W::kv("GCOUNT", "1")); w.card(fr::W::ks("EXTNAME", "EXTENTS")); w.end_header(); for (double x : d.extents) w.put_double(x); w.pad_data(); b.insert(b.end(), w.out.begin(), w.out.end()); }
        else b = fr::encode(dd, o); }
      return b; }});
    M.push_back({"ext-retarget-extname:" + en, [h](const Seed& s) { fr::Bytes b = s.bytes; for (size_t c = 0; c < s.hdus[h].cards.size(); c++) if (s.hdus[h].cards[c].key == "EXTNAME") set_card(b, s.hdus[h].header_off + 80 * c, "EXTNAME = 'KNOTS0  '"); return b; }});
    M.push_back({"ext-junk-extname:" + en, [h](const Seed& s) { fr::Bytes b = s.bytes; for (size_t c = 0; c < s.hdus[h].cards.size(); c++) if (s.hdus[h].cards[c].key == "EXTNAME") set_card(b, s.hdus[h].header_off + 80 * c, "EXTNAME = 'WHATEVER'"); return b; }});
    M.push_back({"ext-bitpix-float:" + en, [h](const Seed& s) { fr::Bytes b = s.bytes; for (size_t c = 0; c < s.hdus[h].cards.size(); c++) if (s.hdus[h].cards[c].key == "BITPIX") set_card(b, s.hdus[h].header_off + 80 * c, fr::W::kv("BITPIX", "-32")); return b; }});
  }
  // ---- M3: knot data
  for (size_t h = 1; h < H0.size(); h++) if (H0[h].extname.compare(0, 5, "KNOTS") == 0) {
    size_t n = H0[h].naxis[0]; size_t off = H0[h].data_off;
    for (size_t pos : {(size_t)0, n / 2, n - 1}) for (int kind = 0; kind < 3; kind++) {
      double v = kind == 0 ? std::numeric_limits<double>::quiet_NaN() : (kind == 1 ? INFINITY : -INFINITY);
      M.push_back({vf::fmt("knots-%s@%s", kind == 0 ? "NaN" : (kind == 1 ? "+inf" : "-inf"), pos == 0 ? "first" : (pos == n - 1 ? "last" : "middle")), [off, pos, v](const Seed& s) { fr::Bytes b = s.bytes; put_be_double(b, off + 8 * pos, v); return b; }});
    }
    M.push_back({"knots-descending", [off, n](const Seed& s) { fr::Bytes b = s.bytes; for (size_t i = 0; i < n; i++) memcpy(&b[off + 8 * i], &s.bytes[off + 8 * (n - 1 - i)], 8); return b; }});
    for (size_t pos : {(size_t)0, n / 2, n - 2}) M.push_back({"knots-one-inversion", [off, pos](const Seed& s) { fr::Bytes b = s.bytes; memcpy(&b[off + 8 * pos], &s.bytes[off + 8 * (pos + 1)], 8); memcpy(&b[off + 8 * (pos + 1)], &s.bytes[off + 8 * pos], 8); return b; }});
    M.push_back({"knots-all-equal", [off, n](const Seed& s) { fr::Bytes b = s.bytes; for (size_t i = 1; i < n; i++) memcpy(&b[off + 8 * i], &s.bytes[off], 8); return b; }});
    M.push_back({"knots-huge", [off, n](const Seed& s) { fr::Bytes b = s.bytes; for (size_t i = 0; i < n; i++) put_be_double(b, off + 8 * i, (double)i * 1e307); return b; }});
  }
  // ---- M4: truncation
  { std::set<size_t> cuts;
    for (size_t o = 0; o <= s.bytes.size(); o += 2880) cuts.insert(o);
    for (auto& h : H0) { for (size_t o = h.header_off; o < h.data_off; o += 80) cuts.insert(o); for (long d = -1; d <= 1; d++) { cuts.insert(h.header_off + d); cuts.insert(h.data_off + d); cuts.insert(h.data_off + h.data_bytes + d); cuts.insert(h.padded_end + d); } }
    for (size_t c : cuts) if (c < s.bytes.size()) {
      std::string reg = "tail"; for (size_t h = 0; h < H0.size(); h++) if (c < H0[h].padded_end) { reg = vf::fmt("hdu%zu-%s", h, c < H0[h].data_off ? "header" : "data"); break; }
      M.push_back({std::string("truncate:") + (c % 2880 == 0 ? "block-edge:" : "mid-block:") + reg, [c](const Seed& s) { return fr::Bytes(s.bytes.begin(), s.bytes.begin() + c); }});
    }
    M.push_back({"append-garbage-block", [](const Seed& s) { fr::Bytes b = s.bytes; for (int i = 0; i < 2880; i++) b.push_back((unsigned char)(i * 37)); return b; }});
    M.push_back({"append-partial-block", [](const Seed& s) { fr::Bytes b = s.bytes; for (int i = 0; i < 100; i++) b.push_back(0); return b; }});
  }
  // ---- M5: bit flips in every header byte and the first/last data block of each HDU
  if (all_bytes) {
    for (size_t h = 0; h < H0.size(); h++) {
      std::vector<std::pair<size_t, size_t>> ranges; ranges.push_back({H0[h].header_off, H0[h].data_off});
      if (H0[h].data_bytes) { ranges.push_back({H0[h].data_off, std::min(H0[h].data_off + 2880, H0[h].data_off + H0[h].data_bytes)}); if (H0[h].data_bytes > 2880) ranges.push_back({H0[h].data_off + (H0[h].data_bytes - 1) / 2880 * 2880, H0[h].data_off + H0[h].data_bytes}); }
      for (size_t ri = 0; ri < ranges.size(); ri++) for (size_t o = ranges[ri].first; o < ranges[ri].second; o++) {
        // skip the blank filler of header blocks beyond the END card (cfitsio never looks at it... it does check it is blank)
        for (unsigned char m : {0x01, 0x80, 0xFF}) M.push_back({vf::fmt("flip-%02x:hdu%zu-%s", m, h, ri == 0 ? "header" : "data"), [o, m](const Seed& s) { fr::Bytes b = s.bytes; b[o] ^= m; return b; }});
      }
    }
  }
  return M;
}

// ---------------------------------------------------------------- oracle
static std::string wf_violation(const Table& t) {   // well-formedness predicate of the property
  if (t.ndim == 0) return "ndim==0 after a successful read";
  if (!t.order || !t.knots || !t.nknots || !t.naxes || !t.strides || !t.coefficients || !t.extents) return "null member";
  for (uint32_t i = 0; i < t.ndim; i++) {
    if (t.nknots[i] < (uint64_t)t.order[i] + 2 || t.naxes[i] != t.nknots[i] - t.order[i] - 1) return vf::fmt("dim %u: naxes %llu != nknots %llu - order %u - 1", i, (unsigned long long)t.naxes[i], (unsigned long long)t.nknots[i], t.order[i]);
    if (t.naxes[i] < (uint64_t)t.order[i] + 1) return vf::fmt("dim %u: naxes %llu < order+1 (order %u)", i, (unsigned long long)t.naxes[i], t.order[i]);
    for (uint64_t j = 0; j < t.nknots[i]; j++) { if (!std::isfinite(t.knots[i][j])) return vf::fmt("dim %u: non-finite knot", i); if (j && t.knots[i][j] < t.knots[i][j - 1]) return vf::fmt("dim %u: decreasing knots", i); }
  }
  uint64_t st = 1;
  for (int i = t.ndim - 1; i >= 0; i--) { if (t.strides[i] != st) return "strides inconsistent with naxes"; st *= t.naxes[i]; }
  if (t.naux && !t.aux) return "auxiliary-key count without a table of entries";
  for (uint32_t i = 0; i < t.naux; i++) if (!t.aux[i] || !t.aux[i][0] || !t.aux[i][1]) return vf::fmt("auxiliary entry %u of %u is not populated", i, t.naux);
  return "";
}
static volatile double g_sink;
static void battery(Table& t, const std::string& where) {
  uint32_t nd = t.ndim;
  std::vector<double> x(nd); std::vector<int> c(nd);
  for (int r = 0; r < 7; r++) {
    for (uint32_t i = 0; i < nd; i++) {
      const double* k = t.knots[i]; uint64_t n = t.nknots[i], na = t.naxes[i];
      switch (r) { case 0: x[i] = k[t.order[i]] + 0.3 * (k[t.order[i] + 1] - k[t.order[i]]); break; case 1: x[i] = k[0] + 0.5 * (k[1] - k[0]); break; case 2: x[i] = k[n - 1]; break; case 3: x[i] = k[na]; break;
        case 4: x[i] = std::numeric_limits<double>::quiet_NaN(); break; case 5: x[i] = INFINITY; break; default: x[i] = std::nextafter(k[0], INFINITY); }
    }
    if (!t.searchcenters(x.data(), c.data())) continue;
    g_sink = t.ndsplineeval<float>(x.data(), c.data(), 0); g_sink = t.ndsplineeval<double>(x.data(), c.data(), 1);
    if (nd + 1 <= PHOTOSPLINE_MAXDIM) { std::vector<double> g(nd + 1); t.ndsplineeval_gradient<float>(x.data(), c.data(), g.data()); }
    std::vector<unsigned> der(nd, 1); g_sink = t.ndsplineeval_deriv(x.data(), c.data(), der.data());
    auto ev = t.get_evaluator<float>(); g_sink = ev.ndsplineeval(x.data(), c.data(), 0);
    g_sink = t(x.data());
  }
  if (!(t == t)) { bool hasnan = false; for (uint64_t j = 0; j < t.get_ncoeffs(); j++) if (std::isnan(t.coefficients[j])) hasnan = true; for (uint32_t i = 0; i < nd; i++) for (uint64_t j = 0; j < t.nknots[i]; j++) if (std::isnan(t.knots[i][j])) hasnan = true; if (!hasnan) H->violation("loaded-table-not-equal-to-itself", where); }
  // the key store of the table that was read: walk it, look up an absent key, add and remove one
  for (size_t i = 0; i < t.get_naux_values(); i++) { g_sink = strlen(t.get_aux_key(i)) + strlen(t.get_aux_value(t.get_aux_key(i)) ? t.get_aux_value(t.get_aux_key(i)) : ""); }
  if (t.get_aux_value("NOSUCHKY")) H->violation("absent-key-found-after-read", where);
  { int dummy = 0; if (t.read_key("NOSUCHKY", dummy)) H->violation("absent-key-found-after-read", where); t.write_key("ADDEDKEY", 7); int back = 0; if (!t.read_key("ADDEDKEY", back) || back != 7) H->violation("key-store-broken-after-read", where); t.remove_key("ADDEDKEY"); }
  auto buf = t.write_fits_mem();
  { Table u; u.read_fits_mem(buf.first, buf.second); if (!(u == t) && wf_violation(t).empty()) { bool hasnan = false; for (uint64_t j = 0; j < t.get_ncoeffs(); j++) if (std::isnan(t.coefficients[j])) hasnan = true; if (!hasnan) H->violation("loaded-table-does-not-survive-reserialisation", where); } }
  free(buf.first);
  if (nd > 1) { std::vector<size_t> perm(nd); for (uint32_t i = 0; i < nd; i++) perm[i] = (i + 1) % nd; t.permuteDimensions(perm); g_sink = t.get_ncoeffs(); }
}

static bool seed_equal(const Table& t, const Seed& s) {
  if (t.ndim != s.d.ndim) return false;
  for (uint32_t i = 0; i < t.ndim; i++) { if (t.order[i] != s.d.order[i] || t.naxes[i] != s.d.naxes[i] || t.nknots[i] != s.d.knots[i].size()) return false; if (memcmp(&t.knots[i][0], s.d.knots[i].data(), 8 * t.nknots[i])) return false; }
  return memcmp(&t.coefficients[0], s.d.coeffs.data(), 4 * s.d.coeffs.size()) == 0;
}

enum Entry { E_MEM = 0, E_DISK, E_CTOR, E_CMEM, E_CDISK, E_N };
static const char* ename[] = {"read_fits_mem", "read_fits", "ctor(path)", "C:readsplinefitstable_mem", "C:readsplinefitstable"};

static std::string g_extra_where;
static void judge(const Seed& s, const fr::Bytes& bytes, const std::string& mcls, int entry, const std::string& path) {
  std::string where = vf::fmt("[seed %s, %s, via %s]%s", s.name, mcls.c_str(), ename[entry], g_extra_where.c_str());
  H->hint(mcls + ":" + ename[entry]);
  std::string key = mcls + ":" + ename[entry];
  fr::Bytes copy = bytes; if (copy.empty()) copy.push_back(0);   // exact-size buffer
  bool ok = false; std::string msg;
  H->count("evaluations");
  if (entry == E_CMEM || entry == E_CDISK) {
    struct splinetable st; st.data = nullptr;
    if (splinetable_init(&st) != 0) { H->violation("C-init-failed", where); return; }
    struct splinetable_buffer sb; sb.data = copy.data(); sb.size = bytes.size();
    int rc = entry == E_CMEM ? readsplinefitstable_mem(&sb, &st) : readsplinefitstable(path.c_str(), &st);
    ok = rc == 0;
    if (!ok) {
      // the handle must stay usable: either empty or NULL, and a read of the valid seed must then succeed
      if (st.data && static_cast<Table*>(st.data)->get_ndim() != 0) H->violation("failed-read-leaves-non-empty-table:" + key, where);
      fr::Bytes good = s.bytes; struct splinetable_buffer gb; gb.data = good.data(); gb.size = good.size();
      if (!st.data) splinetable_init(&st);
      if (readsplinefitstable_mem(&gb, &st) != 0 || !seed_equal(*static_cast<Table*>(st.data), s)) H->violation("object-not-reusable-after-failed-read:" + key, where);
    } else {
      Table& t = *static_cast<Table*>(st.data);
      std::string wf = wf_violation(t);
      if (!wf.empty()) H->violation("ill-formed-table-accepted:" + mcls, where + " " + wf);
      else battery(t, where);
    }
    splinetable_free(&st);
    H->count(ok ? "loaded" : "clean_failures"); H->cls(key + (ok ? "|loaded" : "|failed"));
    return;
  }
  std::unique_ptr<Table> t;
  try {
    if (entry == E_CTOR) t.reset(new Table(path));
    else { t.reset(new Table); if (entry == E_MEM) t->read_fits_mem(copy.data(), bytes.size()); else t->read_fits(path); }
    ok = true;
  } catch (std::exception& e) { msg = e.what(); }
  if (!ok) {
    H->count("clean_failures"); H->cls(key + "|failed|" + msg.substr(0, 40));
    if (entry == E_CTOR) return;  // no object exists after a throwing constructor
    if (t->get_ndim() != 0) H->violation("failed-read-leaves-non-empty-table:" + key, where + " ndim=" + std::to_string(t->get_ndim()) + " (" + msg + ")");
    // reusable: the valid seed must load into the same object and compare equal
    fr::Bytes good = s.bytes;
    try { t->read_fits_mem(good.data(), good.size()); if (!seed_equal(*t, s)) H->violation("object-not-reusable-after-failed-read:" + key, where + " (loaded something else)"); }
    catch (std::exception& e) { H->violation("object-not-reusable-after-failed-read:" + key, where + " second read: " + e.what()); }
    return;   // t destructed here: must be safe
  }
  H->count("loaded");
  std::string wf = wf_violation(*t);
  bool eq = wf.empty() && seed_equal(*t, s);
  H->cls(key + (eq ? "|loaded-equal" : "|loaded-different"));
  if (!wf.empty()) { H->violation("ill-formed-table-accepted:" + mcls, where + " " + wf); t.release(); /* not destructed: its arrays are inconsistent */ return; }
  battery(*t, where);
}

static void run_case(int si, uint64_t idx, bool thorough, bool all_bytes) {
  const Seed& s = seeds()[si];
  static std::map<int, std::vector<Mut>> cache;
  auto it = cache.find(si); if (it == cache.end()) it = cache.emplace(si, mutations(s, thorough, all_bytes)).first;
  const Mut& m = it->second[idx / E_N]; int entry = idx % E_N;
  fr::Bytes b = m.make(s);
  std::string path;
  if (entry == E_DISK || entry == E_CTOR || entry == E_CDISK) { path = vf::fmt("c07_%d.fits", (int)getpid()); std::ofstream f(path, std::ios::binary); f.write((const char*)b.data(), b.size()); }
  judge(s, b, m.cls, entry, path);
  if (!path.empty()) remove(path.c_str());
  if (H->want_sample()) H->sample(vf::fmt("{\"seed\":\"%s\",\"mutation\":\"%s\",\"entry\":\"%s\",\"bytes\":%zu}", s.name, m.cls.c_str(), ename[entry], b.size()));
}

// ---- foreign inputs
static void run_foreign(uint64_t idx) {
  int kind = idx / E_N, entry = idx % E_N;
  const Seed& s = seeds()[0];
  fr::Bytes b; std::string cls;
  fr::W w;
  switch (kind) {
    case 0: cls = "foreign:empty-file"; break;
    case 1: cls = "foreign:random-bytes"; for (int i = 0; i < 5000; i++) b.push_back((unsigned char)(vf::mix64(i) & 0xff)); break;
    case 2: cls = "foreign:text"; { std::string t = "this is not a FITS file\n"; for (int i = 0; i < 200; i++) b.insert(b.end(), t.begin(), t.end()); } break;
    case 3: cls = "foreign:empty-primary"; w.card(fr::W::kv("SIMPLE", "T")); w.card(fr::W::kv("BITPIX", "8")); w.card(fr::W::kv("NAXIS", "0")); w.end_header(); b = w.out; break;
    case 4: cls = "foreign:bintable"; w.card(fr::W::kv("SIMPLE", "T")); w.card(fr::W::kv("BITPIX", "8")); w.card(fr::W::kv("NAXIS", "0")); w.card(fr::W::kv("EXTEND", "T")); w.end_header();
      w.card("XTENSION= 'BINTABLE'"); w.card(fr::W::kv("BITPIX", "8")); w.card(fr::W::kv("NAXIS", "2")); w.card(fr::W::kv("NAXIS1", "8")); w.card(fr::W::kv("NAXIS2", "3")); w.card(fr::W::kv("PCOUNT", "0")); w.card(fr::W::kv("GCOUNT", "1")); w.card(fr::W::kv("TFIELDS", "1")); w.card("TFORM1  = '1D      '"); w.end_header(); for (int i = 0; i < 3; i++) w.put_double(i); w.pad_data(); b = w.out; break;
    case 5: cls = "foreign:image-without-spline-keys"; w.card(fr::W::kv("SIMPLE", "T")); w.card(fr::W::kv("BITPIX", "-32")); w.card(fr::W::kv("NAXIS", "2")); w.card(fr::W::kv("NAXIS1", "4")); w.card(fr::W::kv("NAXIS2", "3")); w.end_header(); for (int i = 0; i < 12; i++) w.put_float(i); w.pad_data(); b = w.out; break;
    case 6: cls = "foreign:header-only-claims-huge-image"; w.card(fr::W::kv("SIMPLE", "T")); w.card(fr::W::kv("BITPIX", "-32")); w.card(fr::W::kv("NAXIS", "3")); w.card(fr::W::kv("NAXIS1", "100000")); w.card(fr::W::kv("NAXIS2", "100000")); w.card(fr::W::kv("NAXIS3", "100000")); w.card(fr::W::kv("ORDER", "2")); w.end_header(); b = w.out; break;
    case 7: cls = "foreign:order-huge"; { fr::Decoded d = s.d; fr::Bytes x = fr::encode(d); b = x; for (size_t c = 0; c < s.hdus[0].cards.size(); c++) if (s.hdus[0].cards[c].key == "ORDER0") set_card(b, 80 * c, fr::W::kv("ORDER0", "4000000000")); } break;
    case 9: case 10: {   // axis lengths whose product wraps around: 2^22 x 2^21 x 2^21 = 2^64 elements, or 2^62 elements = 2^64 bytes; the knot extensions are real (64 / 40 MB)
      cls = kind == 9 ? "foreign:axis-product-wraps-to-0-elements" : "foreign:axis-product-wraps-to-0-bytes";
      std::vector<uint64_t> nax = kind == 9 ? std::vector<uint64_t>{1ull << 22, 1ull << 21, 1ull << 21} : std::vector<uint64_t>{1ull << 21, 1ull << 21, 1ull << 20};
      w.card(fr::W::kv("SIMPLE", "T")); w.card(fr::W::kv("BITPIX", "-32")); w.card(fr::W::kv("NAXIS", "3"));
      for (int i = 0; i < 3; i++) w.card(fr::W::kv("NAXIS" + std::to_string(i + 1), std::to_string(nax[2 - i])));
      w.card(fr::W::kv("EXTEND", "T")); w.card(fr::W::ks("TYPE", "Spline Coefficient Table"));
      for (int i = 0; i < 3; i++) w.card(fr::W::kv("ORDER" + std::to_string(i), "1"));
      w.end_header();
      for (int i = 0; i < 3; i++) { uint64_t nk = nax[i] + 2; w.card("XTENSION= 'IMAGE   '"); w.card(fr::W::kv("BITPIX", "-64")); w.card(fr::W::kv("NAXIS", "1")); w.card(fr::W::kv("NAXIS1", std::to_string(nk))); w.card(fr::W::kv("PCOUNT", "0")); w.card(fr::W::kv("GCOUNT", "1")); w.card(fr::W::ks("EXTNAME", "KNOTS" + std::to_string(i))); w.end_header(); w.out.reserve(w.out.size() + 8 * nk + 2880); for (uint64_t j = 0; j < nk; j++) w.put_double((double)j); w.pad_data(); }
      b = w.out; break; }
    default: cls = "foreign:missing-or-directory"; break;
  }
  std::string path;
  if (kind == 11) { path = (entry == E_CDISK) ? "." : "no-such-file.fits"; if (entry == E_MEM || entry == E_CMEM) return; }
  else if (entry == E_DISK || entry == E_CTOR || entry == E_CDISK) { path = vf::fmt("c07f_%d.fits", (int)getpid()); std::ofstream f(path, std::ios::binary); f.write((const char*)b.data(), b.size()); }
  judge(s, b, cls, entry, path);
  if (kind != 11 && !path.empty()) remove(path.c_str());
}


// ---- self-consistent shapes: files from the independent writer whose NAXISn, ORDERn and KNOTSn lengths all agree with each
// other (so no single cross-check between two fields can object) but where some dimension has too few coefficients for its
// order; every combination of per-dimension (order, coefficient count) pairs, so that asymmetric shapes are included
static void run_shapes(uint64_t idx) {
  static const int OPT[9][2] = {{0, 1}, {1, 2}, {1, 6}, {3, 4}, {3, 7}, {1, 1}, {3, 3}, {3, 1}, {2, 2}};   // (order, coefficients); the last four are ill-formed
  int entry = idx % E_N; uint64_t r = idx / E_N; int d; std::vector<int> pick;
  if (r < 9) { d = 1; pick = {(int)r}; } else if (r < 9 + 81) { r -= 9; d = 2; pick = {(int)(r / 9), (int)(r % 9)}; } else { r -= 90; d = 3; pick = {(int)(r / 81), (int)((r / 9) % 9), (int)(r % 9)}; }
  fr::Decoded dd; dd.ndim = d; bool valid = true; uint64_t nc = 1; std::string desc;
  for (int i = 0; i < d; i++) {
    uint32_t o = OPT[pick[i]][0]; uint64_t n = OPT[pick[i]][1]; if (n < o + 1) valid = false;
    dd.order.push_back(o); dd.naxes.push_back(n); nc *= n;
    std::vector<double> k; for (uint64_t j = 0; j < n + o + 1; j++) k.push_back(-1.0 + 0.5 * j + 0.03 * j * i); dd.knots.push_back(k);
    dd.extents.push_back(k[std::min<size_t>(o, k.size() - 1)]); dd.extents.push_back(k[std::min<size_t>(n, k.size() - 1)]);
    desc += vf::fmt("%s(order %u, %llu coefficients)", i ? " x " : "", o, (unsigned long long)n);
  }
  dd.has_extents = true;
  for (uint64_t j = 0; j < nc; j++) dd.coeffs.push_back((float)(1 + (j % 5)));
  fr::Bytes b = fr::encode(dd);
  std::string cls = std::string(valid ? "shape:well-formed" : "shape:too-few-coefficients-for-the-order") + vf::fmt(":d=%d", d);
  std::string path;
  if (entry == E_DISK || entry == E_CTOR || entry == E_CDISK) { path = vf::fmt("c07s_%d.fits", (int)getpid()); std::ofstream f(path, std::ios::binary); f.write((const char*)b.data(), b.size()); }
  H->hint(cls + " " + desc);
  g_extra_where = " [" + desc + "]"; judge(seeds()[0], b, cls, entry, path); g_extra_where.clear();
  if (!path.empty()) remove(path.c_str());
}

int main(int argc, char** argv) {
  vf::Harness h("C07", argc, argv);
  H = &h;
  h.meta("level", "fault_enumeration");
  h.meta("rule", "three valid seed files from the independent writer (1-d; 2-d with aux keys; 3-d with custom EXTENTS and PERIODn); every single deviation of: each header card of each HDU (delete, duplicate, blank value, rename, 12 replacement values for structural keys, whole card blanked, keyword blanked, a blank / COMMENT / HISTORY / CONTINUE / keyword-less card inserted in front of it), each extension (drop, duplicate, swap with every later one, resize -1/+1/+400, retarget or junk EXTNAME, change BITPIX), each knot vector (NaN/+-inf at first/middle/last, descending, one inversion, all equal, huge), truncation at every block edge, every card edge and +-1 byte around every HDU boundary, appended garbage, and bit flips {01,80,FF} of every byte of every header block and of the first/last data block (seed 1 in quick, all seeds in thorough), plus foreign inputs, plus space 'shapes': 819 self-consistent files of 1..3 dimensions with every combination of per-dimension (order, coefficient count) from {(0,1),(1,2),(1,6),(3,4),(3,7) well-formed; (1,1),(3,3),(3,1),(2,2) too few coefficients} whose NAXISn / ORDERn / KNOTSn lengths agree with each other; each file through read_fits_mem, read_fits, constructor, and both C readers; failure => object empty, reusable for the valid seed, destructible; success => well-formedness predicate then battery (lookup, evaluations at margins/knots/NaN/inf, ==, re-serialisation, permutation, destruction) under ASan/UBSan; distinct = (mutation class, entry point, outcome, failure message)");
  h.meta("assumption", "pairs of deviations are not enumerated; the tools' exit status is covered through the same constructor-from-path entry they use");
  h.meta("require_clean_failures", "1000");
  h.meta("require_loaded", "100");
  h.meta("deadline_quick", "900"); h.meta("deadline_thorough", "2400");
  h.timeout_s = 30;
  bool T = h.thorough;
  h.add_space("foreign", 12 * E_N, run_foreign);
  h.add_space("shapes", (9ull + 81 + 729) * E_N, run_shapes);
  for (int si = 0; si < 3; si++) {
    bool all_bytes = T || si == 0;
    size_t n = mutations(seeds()[si], T, all_bytes).size();
    h.add_space(vf::fmt("seed-%s", seeds()[si].name), n * E_N, [si, T, all_bytes](uint64_t i) { run_case(si, i, T, all_bytes); });
  }
  return h.main();
}
