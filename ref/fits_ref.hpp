// fits_ref.hpp — independent, deliberately small FITS reader and writer for the spline-table layout
// (no cfitsio).  2880-byte blocks, 80-character cards, big-endian data.
#pragma once
#include <string>
#include <vector>
#include <map>
#include <cstdint>
#include <cstring>
#include <cstdio>
#include <cmath>
#include <stdexcept>

namespace fr {

typedef std::vector<unsigned char> Bytes;

struct Card { std::string key; std::string value; bool is_string = false; std::string raw; };

struct HDU {
  size_t header_off = 0, data_off = 0, data_bytes = 0, padded_end = 0;
  std::vector<Card> cards;
  int bitpix = 0; std::vector<long> naxis; std::string extname; bool primary = false;
  const Card* find(const std::string& k) const { for (auto& c : cards) if (c.key == k) return &c; return nullptr; }
};

inline std::string rtrim(std::string s) { while (!s.empty() && s.back() == ' ') s.pop_back(); return s; }

// parse one 80-char card
inline Card parse_card(const char* p) {
  Card c; c.raw.assign(p, 80);
  std::string s(p, 80);
  if (s.compare(0, 9, "HIERARCH ") == 0) {
    size_t eq = s.find('=');
    if (eq == std::string::npos) { c.key = rtrim(s.substr(0, 8)); return c; }
    c.key = rtrim(s.substr(9, eq - 9));
    s = s.substr(eq + 1);
  } else {
    c.key = rtrim(s.substr(0, 8));
    if (s.size() < 10 || s[8] != '=' ) { c.value = rtrim(s.substr(8)); return c; }
    s = s.substr(10);
  }
  size_t i = 0; while (i < s.size() && s[i] == ' ') i++;
  if (i < s.size() && s[i] == '\'') {
    c.is_string = true; std::string v; i++;
    while (i < s.size()) { if (s[i] == '\'') { if (i + 1 < s.size() && s[i + 1] == '\'') { v += '\''; i += 2; continue; } break; } v += s[i++]; }
    c.value = v;
  } else {
    size_t sl = s.find('/', i);
    c.value = rtrim(s.substr(i, sl == std::string::npos ? std::string::npos : sl - i));
  }
  return c;
}

inline std::vector<HDU> parse(const Bytes& b) {
  std::vector<HDU> out; size_t off = 0;
  while (off + 2880 <= b.size()) {
    HDU h; h.header_off = off; h.primary = out.empty();
    bool end = false; size_t p = off;
    while (!end) {
      if (p + 2880 > b.size()) throw std::runtime_error("truncated header");
      for (int i = 0; i < 36; i++) {
        Card c = parse_card((const char*)&b[p + 80 * i]);
        if (c.key == "END") { end = true; break; }
        h.cards.push_back(c);
      }
      p += 2880;
    }
    h.data_off = p;
    const Card* c;
    if (!(c = h.find("BITPIX"))) throw std::runtime_error("no BITPIX");
    h.bitpix = atoi(c->value.c_str());
    if (!(c = h.find("NAXIS"))) throw std::runtime_error("no NAXIS");
    int n = atoi(c->value.c_str());
    size_t count = n ? 1 : 0;
    for (int i = 1; i <= n; i++) { char k[16]; snprintf(k, sizeof k, "NAXIS%d", i); if (!(c = h.find(k))) throw std::runtime_error("no NAXISn"); long v = atol(c->value.c_str()); h.naxis.push_back(v); count *= v; }
    long pcount = 0, gcount = 1;
    if ((c = h.find("PCOUNT"))) pcount = atol(c->value.c_str());
    if ((c = h.find("GCOUNT"))) gcount = atol(c->value.c_str());
    if ((c = h.find("EXTNAME"))) h.extname = rtrim(c->value);
    h.data_bytes = (size_t)(abs(h.bitpix) / 8) * gcount * (pcount + count);
    h.padded_end = h.data_off + (h.data_bytes + 2879) / 2880 * 2880;
    if (h.data_off + h.data_bytes > b.size()) throw std::runtime_error("truncated data");
    out.push_back(h);
    off = h.padded_end;
  }
  return out;
}

inline double be_double(const unsigned char* p) { uint64_t v = 0; for (int i = 0; i < 8; i++) v = (v << 8) | p[i]; double d; memcpy(&d, &v, 8); return d; }
inline float be_float(const unsigned char* p) { uint32_t v = 0; for (int i = 0; i < 4; i++) v = (v << 8) | p[i]; float f; memcpy(&f, &v, 4); return f; }

// what the independent reader recovers from a spline file
struct Decoded {
  uint32_t ndim = 0;
  std::vector<uint32_t> order; std::vector<uint64_t> naxes;  // naxes in table order (FITS axes reversed)
  std::vector<float> coeffs; std::vector<std::vector<double>> knots;
  std::vector<double> extents; bool has_extents = false;
  std::vector<double> periods; std::vector<bool> has_period;
  std::vector<std::pair<std::string, std::string>> aux;  // in header order
  int coeff_bitpix = 0;
};

inline bool reserved(const std::string& k) {
  static const char* pre[] = {"BITPIX", "SIMPLE", "TYPE", "ORDER", "NAXIS", "PERIOD", "EXTEND", "COMMENT"};
  for (auto p : pre) if (k.compare(0, strlen(p), p) == 0) return true;
  return false;
}

inline Decoded decode(const Bytes& b) {
  auto hd = parse(b);
  if (hd.empty()) throw std::runtime_error("no HDU");
  Decoded d; const HDU& p = hd[0];
  d.ndim = p.naxis.size(); d.coeff_bitpix = p.bitpix;
  for (size_t i = 0; i < d.ndim; i++) d.naxes.push_back(p.naxis[d.ndim - 1 - i]);
  size_t n = 1; for (auto v : p.naxis) n *= v;
  for (size_t i = 0; i < n; i++) {
    const unsigned char* q = &b[p.data_off];
    switch (p.bitpix) {
      case -32: d.coeffs.push_back(be_float(q + 4 * i)); break;
      case -64: d.coeffs.push_back((float)be_double(q + 8 * i)); break;
      case 16: d.coeffs.push_back((float)(int16_t)((q[2 * i] << 8) | q[2 * i + 1])); break;
      case 32: d.coeffs.push_back((float)(int32_t)(((uint32_t)q[4 * i] << 24) | (q[4 * i + 1] << 16) | (q[4 * i + 2] << 8) | q[4 * i + 3])); break;
      default: throw std::runtime_error("unsupported BITPIX");
    }
  }
  const Card* c;
  if ((c = p.find("ORDER"))) d.order.assign(d.ndim, atoi(c->value.c_str()));
  else for (uint32_t i = 0; i < d.ndim; i++) { char k[16]; snprintf(k, sizeof k, "ORDER%u", i); if (!(c = p.find(k))) throw std::runtime_error("no ORDERn"); d.order.push_back(atoi(c->value.c_str())); }
  for (uint32_t i = 0; i < d.ndim; i++) { char k[16]; snprintf(k, sizeof k, "PERIOD%u", i); c = p.find(k); d.has_period.push_back(c != nullptr); d.periods.push_back(c ? atof(c->value.c_str()) : 0.0); }
  for (auto& cd : p.cards) { if (cd.key.empty() || reserved(cd.key) || cd.key == "HISTORY") continue; d.aux.push_back({cd.key, cd.value}); }
  for (uint32_t i = 0; i < d.ndim; i++) {
    char k[16]; snprintf(k, sizeof k, "KNOTS%u", i);
    const HDU* h = nullptr; for (auto& x : hd) if (!x.primary && x.extname == k) { h = &x; break; }
    if (!h) throw std::runtime_error("no KNOTS extension");
    if (h->bitpix != -64 || h->naxis.size() != 1) throw std::runtime_error("KNOTS extension is not a 1-d double image");
    std::vector<double> kv; for (long j = 0; j < h->naxis[0]; j++) kv.push_back(be_double(&b[h->data_off + 8 * j]));
    d.knots.push_back(kv);
  }
  for (auto& x : hd) if (!x.primary && x.extname == "EXTENTS") {
    if (x.bitpix != -64 || x.naxis.size() != 1) throw std::runtime_error("EXTENTS extension is not a 1-d double image");
    d.has_extents = true; for (long j = 0; j < x.naxis[0]; j++) d.extents.push_back(be_double(&b[x.data_off + 8 * j]));
  }
  return d;
}

// ---------------------------------------------------------------- writer
struct W {
  Bytes out;
  void card(const std::string& s) { std::string c = s; c.resize(80, ' '); out.insert(out.end(), c.begin(), c.end()); }
  static std::string kv(const std::string& k, const std::string& v) { std::string key = k; key.resize(8, ' '); char b[96]; snprintf(b, sizeof b, "%s= %20s", key.c_str(), v.c_str()); return b; }
  static std::string ks(const std::string& k, const std::string& v) {  // fixed-format string (>= 8 chars inside the quotes)
    std::string q; for (char ch : v) { q += ch; if (ch == '\'') q += '\''; } if (q.size() < 8) q.resize(8, ' ');
    if (k.size() > 8) return "HIERARCH " + k + " = '" + q + "'";
    std::string key = k; key.resize(8, ' '); return key + "= '" + q + "'";
  }
  void end_header() { card("END"); while (out.size() % 2880) out.push_back(' '); }
  void pad_data() { while (out.size() % 2880) out.push_back(0); }
  void put_double(double d) { uint64_t v; memcpy(&v, &d, 8); for (int i = 7; i >= 0; i--) out.push_back((v >> (8 * i)) & 0xff); }
  void put_float(float f) { uint32_t v; memcpy(&v, &f, 4); for (int i = 3; i >= 0; i--) out.push_back((v >> (8 * i)) & 0xff); }
  void put_i16(int16_t x) { out.push_back(((uint16_t)x >> 8) & 0xff); out.push_back((uint16_t)x & 0xff); }
  void put_i32(int32_t x) { for (int i = 3; i >= 0; i--) out.push_back(((uint32_t)x >> (8 * i)) & 0xff); }
};

struct WriteOpts {
  int coeff_bitpix = -32;        // -32 (documented), -64, 16, 32 (legacy readers accept them)
  bool single_order_key = false; // legacy: one ORDER key
  bool write_extents = true;
  bool write_periods = true;
  bool type_key = true;
  int ext_order = 0;             // 0: KNOTS0..KNOTSn-1, EXTENTS (what the library writes); 1: EXTENTS first; 2: knot extensions in reverse order; 3: an unrelated image extension before the knots (the reader must find extensions by EXTNAME)
};

inline std::string dfmt(double d) { char b[40]; snprintf(b, sizeof b, "%.17G", d); std::string s = b; if (s.find('.') == std::string::npos && s.find('E') == std::string::npos && s.find("INF") == std::string::npos && s.find("NAN") == std::string::npos) s += "."; return s; }

inline Bytes encode(const Decoded& d, const WriteOpts& o = WriteOpts()) {
  W w;
  w.card(W::kv("SIMPLE", "T"));
  w.card(W::kv("BITPIX", std::to_string(o.coeff_bitpix)));
  w.card(W::kv("NAXIS", std::to_string(d.ndim)));
  for (uint32_t i = 0; i < d.ndim; i++) w.card(W::kv("NAXIS" + std::to_string(i + 1), std::to_string(d.naxes[d.ndim - 1 - i])));
  w.card(W::kv("EXTEND", "T"));
  if (o.type_key) w.card(W::ks("TYPE", "Spline Coefficient Table"));
  if (o.single_order_key) w.card(W::kv("ORDER", std::to_string(d.order[0])));
  else for (uint32_t i = 0; i < d.ndim; i++) w.card(W::kv("ORDER" + std::to_string(i), std::to_string(d.order[i])));
  if (o.write_periods && d.periods.size() == d.ndim) for (uint32_t i = 0; i < d.ndim; i++) w.card(W::kv("PERIOD" + std::to_string(i), dfmt(d.periods[i])));
  for (auto& a : d.aux) w.card(W::ks(a.first, a.second));
  w.end_header();
  for (float c : d.coeffs) {
    switch (o.coeff_bitpix) { case -32: w.put_float(c); break; case -64: w.put_double(c); break; case 16: w.put_i16((int16_t)c); break; case 32: w.put_i32((int32_t)c); break; }
  }
  w.pad_data();
  auto ext = [&](const std::string& name, const std::vector<double>& v) {
    w.card("XTENSION= 'IMAGE   '"); w.card(W::kv("BITPIX", "-64")); w.card(W::kv("NAXIS", "1")); w.card(W::kv("NAXIS1", std::to_string(v.size())));
    w.card(W::kv("PCOUNT", "0")); w.card(W::kv("GCOUNT", "1")); w.card(W::ks("EXTNAME", name)); w.end_header();
    for (double x : v) w.put_double(x);
    w.pad_data();
  };
  bool have_ext = o.write_extents && d.extents.size() == 2 * d.ndim;
  if (o.ext_order == 1 && have_ext) ext("EXTENTS", d.extents);
  if (o.ext_order == 3) ext("UNRELATED", std::vector<double>{1.0, 2.0, 3.0});
  if (o.ext_order == 2) for (uint32_t i = d.ndim; i-- > 0;) ext("KNOTS" + std::to_string(i), d.knots[i]);
  else for (uint32_t i = 0; i < d.ndim; i++) ext("KNOTS" + std::to_string(i), d.knots[i]);
  if (o.ext_order != 1 && have_ext) ext("EXTENTS", d.extents);
  return w.out;
}

}  // namespace fr
