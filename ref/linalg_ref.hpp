// linalg_ref.hpp — dense long-double linear algebra for the fit/NNLS reference models.
#pragma once
#include <vector>
#include <cmath>
#include <cstdint>
#include <algorithm>

namespace la {
typedef long double ld;
struct Mat {
  size_t n = 0, m = 0; std::vector<ld> a;
  Mat() {}
  Mat(size_t n_, size_t m_) : n(n_), m(m_), a(n_ * m_, 0) {}
  ld& operator()(size_t i, size_t j) { return a[i * m + j]; }
  ld operator()(size_t i, size_t j) const { return a[i * m + j]; }
};

// solve A x = b for symmetric positive definite A (Cholesky); returns false if a pivot is not positive
inline bool chol_solve(const Mat& A, const std::vector<ld>& b, std::vector<ld>& x) {
  size_t n = A.n; Mat L(n, n);
  for (size_t i = 0; i < n; i++) for (size_t j = 0; j <= i; j++) {
    ld s = A(i, j); for (size_t k = 0; k < j; k++) s -= L(i, k) * L(j, k);
    if (i == j) { if (!(s > 0)) return false; L(i, i) = sqrtl(s); } else L(i, j) = s / L(j, j);
  }
  std::vector<ld> y(n); x.assign(n, 0);
  for (size_t i = 0; i < n; i++) { ld s = b[i]; for (size_t k = 0; k < i; k++) s -= L(i, k) * y[k]; y[i] = s / L(i, i); }
  for (size_t ii = n; ii-- > 0;) { ld s = y[ii]; for (size_t k = ii + 1; k < n; k++) s -= L(k, ii) * x[k]; x[ii] = s / L(ii, ii); }
  return true;
}
// upper-triangular R with R'R = A (double output), false if not SPD
inline bool chol_factor_upper(const Mat& A, Mat& R) {
  size_t n = A.n; R = Mat(n, n);
  for (size_t j = 0; j < n; j++) for (size_t i = 0; i <= j; i++) {
    ld s = A(i, j); for (size_t k = 0; k < i; k++) s -= R(k, i) * R(k, j);
    if (i == j) { if (!(s > 0)) return false; R(i, i) = sqrtl(s); } else R(i, j) = s / R(i, i);
  }
  return true;
}
// factor once, solve many
inline bool chol_factor_lower(const Mat& A, Mat& L) {
  size_t n = A.n; L = Mat(n, n);
  for (size_t i = 0; i < n; i++) for (size_t j = 0; j <= i; j++) {
    ld s = A(i, j); for (size_t k = 0; k < j; k++) s -= L(i, k) * L(j, k);
    if (i == j) { if (!(s > 0)) return false; L(i, i) = sqrtl(s); } else L(i, j) = s / L(j, j);
  }
  return true;
}
inline void chol_solve_with(const Mat& L, const std::vector<ld>& b, std::vector<ld>& x) {
  size_t n = L.n; std::vector<ld> y(n); x.assign(n, 0);
  for (size_t i = 0; i < n; i++) { ld s = b[i]; for (size_t k = 0; k < i; k++) s -= L(i, k) * y[k]; y[i] = s / L(i, i); }
  for (size_t ii = n; ii-- > 0;) { ld s = y[ii]; for (size_t k = ii + 1; k < n; k++) s -= L(k, ii) * x[k]; x[ii] = s / L(ii, ii); }
}
// cheap condition estimate for larger matrices: |A|_inf * (max column sum of |A^-1| over a few probe columns + power iteration)
inline ld cond_estimate(const Mat& A, const Mat& L) {
  size_t n = A.n; std::vector<ld> v(n, 1.0L / n), w;
  ld inv_norm = 0;
  for (int it = 0; it < 12; it++) { chol_solve_with(L, v, w); ld s = 0; for (auto t : w) s += fabsl(t); if (s == 0) break; inv_norm = s; ld m = 0; for (auto t : w) m = std::max(m, fabsl(t)); for (size_t i = 0; i < n; i++) v[i] = w[i] / s; (void)m; }
  // 1-norm power iteration gives the dominant eigenvalue of A^-1 (A symmetric): a lower bound of |A^-1|; pad by n^(1/2)
  ld nA = 0; for (size_t i = 0; i < n; i++) { ld s = 0; for (size_t j = 0; j < n; j++) s += fabsl(A(i, j)); nA = std::max(nA, s); }
  return nA * inv_norm * sqrtl((ld)n);
}
inline ld norm_inf(const Mat& A) { ld m = 0; for (size_t i = 0; i < A.n; i++) { ld s = 0; for (size_t j = 0; j < A.m; j++) s += fabsl(A(i, j)); m = std::max(m, s); } return m; }
// condition number in the infinity norm through the explicit inverse (small n only); 0 if not SPD
inline ld cond_inf(const Mat& A) {
  size_t n = A.n; Mat inv(n, n); std::vector<ld> e(n), col;
  for (size_t j = 0; j < n; j++) { std::fill(e.begin(), e.end(), 0); e[j] = 1; if (!chol_solve(A, e, col)) return 0; for (size_t i = 0; i < n; i++) inv(i, j) = col[i]; }
  return norm_inf(A) * norm_inf(inv);
}

// Brute-force NNLS: minimise 1/2 x'Ax - b'x s.t. x >= 0 over all 2^n passive sets. Returns the unique minimiser
// for SPD A; `passive` is the set of indices free in the accepted solution, `degenerate` tells whether some
// multiplier or component is (numerically) zero, i.e. the active set is not unique.
struct NnlsRef { std::vector<ld> x; uint32_t passive = 0; bool ok = false; bool degenerate = false; };
inline NnlsRef nnls_bruteforce(const Mat& A, const std::vector<ld>& b) {
  size_t n = A.n; NnlsRef best; ld scale = 0; for (auto v : b) scale = std::max(scale, fabsl(v)); scale = std::max(scale, (ld)1);
  ld bestviol = 1e300L;
  for (uint32_t S = 0; S < (1u << n); S++) {
    std::vector<size_t> idx; for (size_t i = 0; i < n; i++) if (S >> i & 1) idx.push_back(i);
    std::vector<ld> x(n, 0);
    if (!idx.empty()) {
      Mat As(idx.size(), idx.size()); std::vector<ld> bs(idx.size()), xs;
      for (size_t i = 0; i < idx.size(); i++) { bs[i] = b[idx[i]]; for (size_t j = 0; j < idx.size(); j++) As(i, j) = A(idx[i], idx[j]); }
      if (!chol_solve(As, bs, xs)) continue;
      for (size_t i = 0; i < idx.size(); i++) x[idx[i]] = xs[i];
    }
    ld viol = 0; bool degen = false;
    for (size_t i = 0; i < n; i++) {
      if (S >> i & 1) { if (x[i] < 0) viol = std::max(viol, -x[i]); if (fabsl(x[i]) <= 1e-12L * scale) degen = true; }
      else { ld g = -b[i]; for (size_t j = 0; j < n; j++) g += A(i, j) * x[j]; if (g < 0) viol = std::max(viol, -g); if (fabsl(g) <= 1e-12L * scale) degen = true; }
    }
    if (viol < bestviol) { bestviol = viol; best.x = x; best.passive = S; best.degenerate = degen; }
  }
  best.ok = bestviol <= 1e-13L * scale;
  return best;
}
}  // namespace la
