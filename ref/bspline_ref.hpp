// bspline_ref.hpp — independent reference for B-spline values and derivatives.
// Plain Cox–de Boor recursion in long double with the one-sided convention of the
// properties made explicit.  Deliberately boring: no local-support shortcuts, no
// re-indexing, the full sum over all stored coefficients.
#pragma once
#include <vector>
#include <cmath>
#include <cstdint>

namespace ref {

typedef long double ld;

enum Side { RIGHT_CONT, LEFT_CONT };  // which polynomial piece is used exactly on a knot

// Order-0 indicator of interval i.
inline ld b0(const double* k, int i, double x, Side s) {
  if (s == RIGHT_CONT) return (x >= k[i] && x < k[i + 1]) ? 1.0L : 0.0L;
  return (x > k[i] && x <= k[i + 1]) ? 1.0L : 0.0L;
}

// B_{i,n}(x); terms with a zero denominator vanish (repeated knots).
inline ld bspl(const double* k, int i, int n, double x, Side s) {
  if (n == 0) return b0(k, i, x, s);
  ld r = 0;
  ld d1 = (ld)k[i + n] - (ld)k[i];
  ld d2 = (ld)k[i + n + 1] - (ld)k[i + 1];
  if (d1 > 0) { ld b = bspl(k, i, n - 1, x, s); if (b != 0) r += ((ld)x - (ld)k[i]) / d1 * b; }
  if (d2 > 0) { ld b = bspl(k, i + 1, n - 1, x, s); if (b != 0) r += ((ld)k[i + n + 1] - (ld)x) / d2 * b; }
  return r;
}

// p-th derivative of B_{i,n}; *mag (if given) accumulates the magnitude of the terms
// before cancellation, used only to scale tolerances.
inline ld bspl_deriv(const double* k, int i, int n, int p, double x, Side s, ld* mag = nullptr) {
  if (p == 0) { ld v = bspl(k, i, n, x, s); if (mag) *mag = fabsl(v); return v; }
  if (n == 0) { if (mag) *mag = 0; return 0; }
  ld r = 0, m = 0;
  ld d1 = (ld)k[i + n] - (ld)k[i];
  ld d2 = (ld)k[i + n + 1] - (ld)k[i + 1];
  if (d1 > 0) { ld mm = 0; ld b = bspl_deriv(k, i, n - 1, p - 1, x, s, &mm); r += n * b / d1; m += n * mm / d1; }
  if (d2 > 0) { ld mm = 0; ld b = bspl_deriv(k, i + 1, n - 1, p - 1, x, s, &mm); r -= n * b / d2; m += n * mm / d2; }
  if (mag) *mag = m;
  return r;
}

// The convention of C01/C02: right-continuous pieces below the upper end of the fully
// supported range k[naxes], left-continuous from there upwards.
inline Side side_for(const double* k, uint64_t nknots, uint32_t order, double x) {
  uint64_t naxes = nknots - order - 1;
  return (x < k[naxes]) ? RIGHT_CONT : LEFT_CONT;
}

struct DimView {
  const double* knots; uint64_t nknots; uint32_t order;
  uint64_t naxes() const { return nknots - order - 1; }
};

struct EvalResult { ld value; ld mag; uint64_t nterms; ld cabs; /* sum |c| over contributing terms: scales underflow floors */ };

// Full tensor-product sum  Σ_j c_j Π_d D^{p_d} B_{j_d,n_d}(x_d)  over ALL coefficients.
// coefficient layout: row-major, last dimension fastest.
inline EvalResult full_eval(const std::vector<DimView>& dims, const float* coeffs, const double* x,
                            const unsigned* deriv /*may be null*/) {
  size_t nd = dims.size();
  std::vector<std::vector<ld>> B(nd), M(nd);
  for (size_t d = 0; d < nd; d++) {
    uint64_t na = dims[d].naxes();
    B[d].resize(na); M[d].resize(na);
    Side s = side_for(dims[d].knots, dims[d].nknots, dims[d].order, x[d]);
    int p = deriv ? (int)deriv[d] : 0;
    for (uint64_t j = 0; j < na; j++) {
      ld mg = 0;
      B[d][j] = bspl_deriv(dims[d].knots, (int)j, (int)dims[d].order, p, x[d], s, &mg);
      M[d][j] = mg;
    }
  }
  // iterate only over indices with non-zero magnitude per dim (still the full sum: the
  // skipped terms are exactly zero), to keep 9-d tables cheap.
  std::vector<std::vector<uint64_t>> nz(nd);
  for (size_t d = 0; d < nd; d++)
    for (uint64_t j = 0; j < B[d].size(); j++) if (M[d][j] != 0 || B[d][j] != 0) nz[d].push_back(j);
  EvalResult r{0, 0, 0, 0};
  for (size_t d = 0; d < nd; d++) if (nz[d].empty()) return r;
  std::vector<uint64_t> stride(nd); stride[nd - 1] = 1;
  for (size_t d = nd - 1; d > 0; d--) stride[d - 1] = stride[d] * dims[d].naxes();
  std::vector<size_t> it(nd, 0);
  while (true) {
    ld pb = 1, pm = 1; uint64_t pos = 0;
    for (size_t d = 0; d < nd; d++) { uint64_t j = nz[d][it[d]]; pb *= B[d][j]; pm *= M[d][j]; pos += j * stride[d]; }
    ld c = coeffs[pos];
    r.value += c * pb; r.mag += fabsl(c) * pm; r.nterms++; r.cabs += fabsl(c);
    size_t d = nd;
    while (d-- > 0) { if (++it[d] < nz[d].size()) break; it[d] = 0; if (d == 0) return r; }
    if (d == (size_t)-1) return r;
  }
}

}  // namespace ref
