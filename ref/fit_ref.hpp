// fit_ref.hpp — reference model of the penalised weighted least-squares spline fit (dense Kronecker form).
#pragma once
#include "bspline_ref.hpp"
#include "linalg_ref.hpp"
#include <vector>

namespace fitref {
using la::ld; using la::Mat;

struct Problem {
  std::vector<uint32_t> order; std::vector<std::vector<double>> knots;   // per dimension
  std::vector<std::vector<double>> coords;                               // abscissae per dimension
  std::vector<std::vector<unsigned>> idx;                                // rows x ndim indices into coords
  std::vector<double> y, w;
  std::vector<double> smooth; std::vector<uint32_t> porder;              // per dimension (already expanded)
  size_t ndim() const { return order.size(); }
  uint64_t naxes(size_t d) const { return knots[d].size() - order[d] - 1; }
  uint64_t ncoef() const { uint64_t n = 1; for (size_t d = 0; d < ndim(); d++) n *= naxes(d); return n; }
};

// coefficients of the p-th derivative expressed in the order n-p B-spline basis: rows (naxes-p) x naxes  (de Boor X.16)
inline Mat deriv_matrix(const std::vector<double>& k, uint32_t n, uint32_t p) {
  size_t na = k.size() - n - 1;
  Mat D(na, na); for (size_t i = 0; i < na; i++) D(i, i) = 1;
  size_t rows = na;
  for (uint32_t q = 1; q <= p; q++) {   // c^(q)_j = (n-q+1) (c^(q-1)_j - c^(q-1)_{j-1}) / (k_{j+n-q+1} - k_j),  j = q..na-1  (stored at row j-q)
    Mat E(rows - 1, na);
    for (size_t r = 0; r + 1 < rows; r++) {
      size_t j = r + q;   // original index of the upper coefficient
      ld den = (ld)k[j + n - q + 1] - (ld)k[j];
      for (size_t c = 0; c < na; c++) E(r, c) = den > 0 ? (ld)(n - q + 1) * (D(r + 1, c) - D(r, c)) / den : 0;
    }
    D = E; rows--;
  }
  return D;
}

struct Solution { std::vector<ld> c; ld kappa = 0; bool spd = false; Mat N; std::vector<ld> rhs; Mat Ndata; std::vector<Mat> pen; /* data part and unscaled per-dimension penalty (empty Mat when smoothing is 0) */ };

inline Solution solve(const Problem& P) {
  size_t nd = P.ndim(); uint64_t nc = P.ncoef(); Solution S; S.N = Mat(nc, nc); S.rhs.assign(nc, 0);
  std::vector<uint64_t> stride(nd); stride[nd - 1] = 1; for (size_t d = nd - 1; d > 0; d--) stride[d - 1] = stride[d] * P.naxes(d);
  // per-dimension basis values at the abscissae (half-open convention, like the fitter)
  std::vector<std::vector<std::vector<ld>>> B(nd);
  for (size_t d = 0; d < nd; d++) { B[d].resize(P.coords[d].size()); for (size_t i = 0; i < P.coords[d].size(); i++) { B[d][i].resize(P.naxes(d)); for (uint64_t j = 0; j < P.naxes(d); j++) B[d][i][j] = ref::bspl(P.knots[d].data(), (int)j, (int)P.order[d], P.coords[d][i], ref::RIGHT_CONT); } }
  std::vector<ld> row(nc);
  for (size_t r = 0; r < P.y.size(); r++) {
    if (P.w[r] == 0) continue;
    // non-zero entries of the Kronecker row
    std::vector<std::pair<uint64_t, ld>> nz{{0, 1}};
    for (size_t d = 0; d < nd; d++) { std::vector<std::pair<uint64_t, ld>> nx; const auto& b = B[d][P.idx[r][d]]; for (auto& e : nz) for (uint64_t j = 0; j < b.size(); j++) if (b[j] != 0) nx.push_back({e.first + j * stride[d], e.second * b[j]}); nz.swap(nx); }
    for (auto& a : nz) { S.rhs[a.first] += (ld)P.w[r] * (ld)P.y[r] * a.second; for (auto& b2 : nz) S.N(a.first, b2.first) += (ld)P.w[r] * a.second * b2.second; }
  }
  S.Ndata = S.N; S.pen.assign(nd, Mat());
  for (size_t d = 0; d < nd; d++) {
    if (P.smooth[d] == 0) continue;
    S.pen[d] = Mat(nc, nc);
    Mat D = deriv_matrix(P.knots[d], P.order[d], P.porder[d]);
    uint64_t na = P.naxes(d); Mat G(na, na);
    for (size_t i = 0; i < na; i++) for (size_t j = 0; j < na; j++) { ld s = 0; for (size_t r = 0; r < D.n; r++) s += D(r, i) * D(r, j); G(i, j) = s; }
    // Kronecker extension with identities: entries (a,b) that agree in all other dimensions
    uint64_t outer = 1, inner = stride[d]; for (size_t e = 0; e < d; e++) outer *= P.naxes(e);
    for (uint64_t o = 0; o < outer; o++) for (uint64_t in = 0; in < inner; in++) for (uint64_t i = 0; i < na; i++) for (uint64_t j = 0; j < na; j++)
      { S.N((o * na + i) * inner + in, (o * na + j) * inner + in) += (ld)P.smooth[d] * G(i, j); S.pen[d]((o * na + i) * inner + in, (o * na + j) * inner + in) = G(i, j); }
  }
  Mat L; S.spd = la::chol_factor_lower(S.N, L);
  if (!S.spd) return S;
  la::chol_solve_with(L, S.rhs, S.c);
  S.kappa = la::cond_estimate(S.N, L);
  return S;
}

// The non-negative least-squares system that a monotonic fit hands to its solver, AS IMPLEMENTED: unknowns are the
// increments t along dimension `mono` (c = T t, T lower-triangular ones along that dimension); data term T'FT, penalty of the
// monotonic dimension T'P T, penalties of the other dimensions applied to t directly.  Returns (A, b) of  min 1/2 t'At - b't, t>=0.
inline void tsum_rows(const Problem& P, size_t m, std::vector<ld>& v) {   // apply T' (suffix sums along dimension m)
  size_t nd = P.ndim(); std::vector<uint64_t> st(nd); st[nd - 1] = 1; for (size_t d = nd - 1; d > 0; d--) st[d - 1] = st[d] * P.naxes(d);
  uint64_t na = P.naxes(m), nc = P.ncoef();
  for (uint64_t base = 0; base < nc; base++) { if ((base / st[m]) % na != 0) continue; for (uint64_t j = na - 1; j-- > 0;) v[base + j * st[m]] += v[base + (j + 1) * st[m]]; }
}
inline void mono_system(const Problem& P, const Solution& S, size_t mono, Mat& A, std::vector<ld>& b) {
  uint64_t nc = P.ncoef(); A = Mat(nc, nc); b = S.rhs; tsum_rows(P, mono, b);
  Mat M(nc, nc);   // F + lambda_m P_m in coefficient coordinates
  for (uint64_t i = 0; i < nc; i++) for (uint64_t j = 0; j < nc; j++) M(i, j) = S.Ndata(i, j) + (S.pen[mono].n ? (ld)P.smooth[mono] * S.pen[mono](i, j) : 0);
  // T' M T: suffix sums over rows, then over columns
  std::vector<ld> col(nc);
  for (uint64_t j = 0; j < nc; j++) { for (uint64_t i = 0; i < nc; i++) col[i] = M(i, j); tsum_rows(P, mono, col); for (uint64_t i = 0; i < nc; i++) M(i, j) = col[i]; }
  for (uint64_t i = 0; i < nc; i++) { for (uint64_t j = 0; j < nc; j++) col[j] = M(i, j); tsum_rows(P, mono, col); for (uint64_t j = 0; j < nc; j++) A(i, j) = col[j]; }
  for (size_t d = 0; d < P.ndim(); d++) if (d != mono && S.pen[d].n) for (uint64_t i = 0; i < nc; i++) for (uint64_t j = 0; j < nc; j++) A(i, j) += (ld)P.smooth[d] * S.pen[d](i, j);
}
}  // namespace fitref
