#ifndef VFS_DRIVER_H
#define VFS_DRIVER_H
#include <stddef.h>
#ifdef __cplusplus
extern "C" {
#endif
enum { VFS_OPEN = 0, VFS_CREATE, VFS_TRUNCATE, VFS_CLOSE, VFS_REMOVE, VFS_SIZE, VFS_FLUSH, VFS_SEEK, VFS_READ, VFS_WRITE };
enum { VFS_NONE = 0, VFS_IMMEDIATE, VFS_DEFERRED, VFS_SHORT };
typedef struct { int kind; long long off; long len; long applied; size_t data_off; int result; } vfs_op;
int vfs_register(void);
void vfs_reset(void);
void vfs_plan(int op, int mode, long short_len);
int vfs_nops(void);
const vfs_op* vfs_get_op(int i);
const unsigned char* vfs_op_data(int i);
size_t vfs_image(const unsigned char** p);
int vfs_fault_fired(void);
int vfs_is_open(void);
void vfs_set_image(const unsigned char* p, size_t n);
#ifdef __cplusplus
}
#endif
#endif
