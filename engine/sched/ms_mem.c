/* ms_mem.c — stands in for the ThreadSanitizer runtime: cholesky_solve.c is compiled with -fsanitize=thread (which makes the
 * compiler call __tsan_readN / __tsan_writeN before every load and store that could be shared) but linked against these
 * definitions, which forward each access to the scheduler (engine/sched/ms_sched.c: scheduling points on protocol variables,
 * vector-clock race detection on everything). Allocation entry points are renamed by shim.h (MS_MEM) so that recycled
 * memory starts with an empty access history, as it does under the real TSan. */
#include <stdlib.h>
#include <cholmod.h>
#include "ms_sched.h"
#define PC __builtin_return_address(0)
void __tsan_init(void) {}
void __tsan_func_entry(void* pc) { (void)pc; }
void __tsan_func_exit(void) {}
#define RW(n) void __tsan_read##n(void* a) { ms_mem_access(a, n, 0, PC); } void __tsan_write##n(void* a) { ms_mem_access(a, n, 1, PC); } \
              void __tsan_unaligned_read##n(void* a) { ms_mem_access(a, n, 0, PC); } void __tsan_unaligned_write##n(void* a) { ms_mem_access(a, n, 1, PC); }
RW(1) RW(2) RW(4) RW(8) RW(16)
void __tsan_read_range(void* a, unsigned long n) { for (unsigned long i = 0; i < n; i += 8) ms_mem_access((char*)a + i, 8, 0, PC); }
void __tsan_write_range(void* a, unsigned long n) { for (unsigned long i = 0; i < n; i += 8) ms_mem_access((char*)a + i, 8, 1, PC); }
void* ms_malloc(size_t n) { void* p = malloc(n); if (p) ms_mem_fresh(p, n); return p; }
void* ms_realloc(void* q, size_t n) { void* p = realloc(q, n); if (p) ms_mem_fresh(p, n); return p; }
void ms_free(void* p) { free(p); }
cholmod_dense* ms_cholmod_allocate_dense(size_t nrow, size_t ncol, size_t d, int xtype, cholmod_common* c) {
  cholmod_dense* x = cholmod_l_allocate_dense(nrow, ncol, d, xtype, c);
  if (x) { ms_mem_fresh(x, sizeof *x); if (x->x) ms_mem_fresh(x->x, 8 * d * ncol); }
  return x;
}
