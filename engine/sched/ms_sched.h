#ifndef MS_SCHED_H
#define MS_SCHED_H
#include <stdint.h>
#include <stddef.h>
#ifdef __cplusplus
extern "C" {
#endif
#define MS_MAXT 8
#define MS_MAXREC 4096
typedef struct {
  uint64_t state;        /* canonical state hash at this choice point */
  uint8_t nen;           /* number of enabled threads (>= 2) */
  uint8_t en[MS_MAXT];   /* enabled thread ids in canonical order: running thread first if enabled, then ascending; 0x80|id = spurious wake-up of id */
  uint8_t chosen;        /* index into en[] */
  uint8_t running_enabled;
  uint8_t ops[MS_MAXT];  /* pending op kind of each enabled thread (for readable traces) */
} ms_rec;
enum { MS_COMPLETE = 0, MS_DEADLOCK = 1, MS_LIVELOCK = 2, MS_DIVERGED = 3 };
typedef struct { int outcome; int nrec; int nsteps; uint64_t final_state; int unfinished_mask;
  /* memory-access layer (only when the code under test is compiled with access hooks, see ms_mem.c) */
  int nraces; int race_kind; /* 1 write-write, 2 write-then-read, 3 read-then-write */ int race_t1, race_t2; uintptr_t race_addr, race_pc1, race_pc2; uint64_t naccesses; char race_what[48]; } ms_result;

/* run body() as thread 0 under the scheduler, following prefix[0..n) and then choice 0; does not return on deadlock:
 * the result and trace are written to out_fd and the process _exits. On completion returns normally. */
void ms_begin(const int* prefix, int nprefix, int out_fd, uint64_t (*state_cb)(void), int step_limit);
void ms_end(uint64_t final_hash);   /* called by thread 0 when the body is done: writes result + trace, returns */
int ms_nthreads_created(void);
void* ms_thread_arg(int id);        /* the arg given to pthread_create for thread id (1-based worker ids) */
const char* ms_opname(int op);
/* Memory-access layer. The code under test is compiled with -fsanitize=thread but linked against ms_mem.c instead of the
 * TSan runtime, so every load / store it performs calls ms_mem_access. (a) Accesses to addresses for which watch_cb returns
 * non-zero (the protocol variables) become scheduling points (OP_LOAD / OP_STORE) like lock and unlock; (b) every access is
 * checked against a vector-clock happens-before relation built from create/start, exit/join and unlock/lock edges: two
 * accesses to the same address by different threads, at least one a write, not ordered by it, are a data race. */
void ms_mem_enable(int (*watch_cb)(const void* addr), const char* (*describe_cb)(const void* addr));   /* describe_cb names an address for reports */
void ms_mem_access(const void* addr, int size, int is_write, const void* pc);
void ms_mem_fresh(const void* addr, size_t size);   /* memory handed out by an allocator: forget its access history */
#ifdef __cplusplus
}
#endif
#endif
