/* ms_sched.c — a cooperative scheduler that owns every synchronisation operation of the code under test.
 * Real OS threads, exactly one runnable at a time (semaphore hand-off).  Every visible operation
 * (lock, unlock, cond_wait, broadcast, create, join, exit, thread start) is a scheduling point: the thread
 * announces its pending operation and the scheduler picks which enabled thread performs its operation next —
 * from the replay prefix while it lasts, then choice 0 ("keep running" if still enabled, else lowest id).
 * "No enabled thread while some thread is unfinished" is a deadlock (this is how a lost wake-up shows). */
#define _GNU_SOURCE 1
#include <pthread.h>
#include <semaphore.h>
#include <stdio.h>
#include <stdlib.h>
#include <string.h>
#include <unistd.h>
#include "ms_sched.h"

enum { OP_NONE = 0, OP_START, OP_LOCK, OP_UNLOCK, OP_WAIT, OP_REACQ, OP_BCAST, OP_CREATE, OP_JOIN, OP_EXIT, OP_SIGNAL, OP_WOKEN, OP_SPURIOUS, OP_LOAD, OP_STORE };
static const char* OPN[] = {"none", "start", "lock", "unlock", "cond_wait", "reacquire", "broadcast", "create", "join", "exit", "signal", "woken-by-signal", "spurious-wakeup", "load", "store"};
const char* ms_opname(int op) { return OPN[op]; }
enum { ST_FREE = 0, ST_RUNNABLE, ST_CONDBLOCKED, ST_FINISHED };

typedef struct { int status, op, joined, target; const void* obj; const void* site; sem_t sem; pthread_t real; void* (*fn)(void*); void* arg; } thr_t;
static thr_t T[MS_MAXT]; static int nthr = 0, cur = 0;
static struct { const void* addr; int owner; } M[8]; static int nM = 0;
static struct { const void* addr; unsigned waiters; } C[8]; static int nC = 0;
static const int* g_prefix; static int g_nprefix, g_pos, g_fd, g_steps, g_limit;
static uint64_t (*g_state_cb)(void);
static ms_rec g_rec[MS_MAXREC]; static int g_nrec;
static int g_spurious_budget = 0;   /* how many spurious returns from cond_wait the scheduler may still inject (POSIX allows them) */
static int g_choice_kind = 0;   /* 0: which thread runs next, 1: which waiter a signal wakes (distinguishes the two choice points of one signal) */

/* ---- happens-before: vector clocks per thread and per mutex */
static uint32_t VC[MS_MAXT][MS_MAXT], MVC[8][MS_MAXT];
static void vc_join(uint32_t* a, const uint32_t* b) { for (int i = 0; i < MS_MAXT; i++) if (b[i] > a[i]) a[i] = b[i]; }
/* ---- shadow memory for the access layer: last write epoch and last read epoch per thread, keyed by access address */
#define SH_N (1u << 15)
typedef struct { const void* addr; int wt; uint32_t wc; const void* wpc; uint32_t rc[MS_MAXT]; const void* rpc[MS_MAXT]; } shadow_t;
static shadow_t* SH; static int g_mem_on = 0, g_active = 0; static int (*g_watch_cb)(const void*); static const char* (*g_describe_cb)(const void*);
static ms_result g_race;   /* first race of this execution */
static uint64_t g_nacc;
static shadow_t* sh_find(const void* a, int create) {
  uint64_t h = (uint64_t)(uintptr_t)a * 0x9e3779b97f4a7c15ULL; uint32_t i = (uint32_t)(h >> 40) & (SH_N - 1);
  for (uint32_t k = 0; k < SH_N; k++, i = (i + 1) & (SH_N - 1)) {
    if (SH[i].addr == a) return &SH[i];
    if (SH[i].addr == NULL) { if (!create) return NULL; memset(&SH[i], 0, sizeof SH[i]); SH[i].addr = a; SH[i].wt = -1; return &SH[i]; }
  }
  fprintf(stderr, "ms_sched: shadow table full\n"); _exit(4);
}
static int mtx(const void* a) { for (int i = 0; i < nM; i++) if (M[i].addr == a) return i; M[nM].addr = a; M[nM].owner = -1; return nM++; }
static int cnd(const void* a) { for (int i = 0; i < nC; i++) if (C[i].addr == a) return i; C[nC].addr = a; C[nC].waiters = 0; return nC++; }

static uint64_t mix(uint64_t h, uint64_t v) { h ^= v + 0x9e3779b97f4a7c15ULL + (h << 6) + (h >> 2); return h * 0xff51afd7ed558ccdULL; }
static uint64_t sched_state(void) {
  uint64_t h = 1469598103934665603ULL;
  for (int i = 0; i < nthr; i++) { h = mix(h, T[i].status); h = mix(h, T[i].op); h = mix(h, (uint64_t)(uintptr_t)T[i].site); h = mix(h, T[i].joined); h = mix(h, T[i].op == OP_JOIN ? T[i].target : 0); }
  for (int i = 0; i < nM; i++) h = mix(h, (uint64_t)(M[i].owner + 2));
  for (int i = 0; i < nC; i++) h = mix(h, C[i].waiters);
  /* which thread is running is deliberately not part of the state: the set of enabled operations, hence the futures, do not depend on it */
  h = mix(h, (uint64_t)g_choice_kind); h = mix(h, (uint64_t)g_spurious_budget);
  if (g_state_cb) h = mix(h, g_state_cb());
  /* The vector clocks are deliberately NOT part of the canonical state. Race detection stays complete under state matching:
   * if two plain accesses a (thread A) and f (thread B) can race, there is a reachable state in which A has performed a in
   * its last stretch (so has not released anything since) and B's next stretch contains f; every transition of every state
   * is executed, and in the execution that performs B's step from that state a's epoch is still unpublished, whatever path
   * led there — so the check below reports it. */
  return h;
}
static int enabled(int i) {
  if (T[i].status != ST_RUNNABLE) return 0;
  switch (T[i].op) {
    case OP_LOCK: case OP_REACQ: return M[mtx(T[i].obj)].owner == -1;
    case OP_JOIN: return T[T[i].target].status == ST_FINISHED;
    default: return 1;
  }
}
static void finish(int outcome) {
  ms_result r = g_race; r.naccesses = g_nacc; r.outcome = outcome; r.nrec = g_nrec; r.nsteps = g_steps; r.final_state = sched_state(); r.unfinished_mask = 0;
  for (int i = 0; i < nthr; i++) if (T[i].status != ST_FINISHED && i != 0) r.unfinished_mask |= 1 << i;
  if (write(g_fd, &r, sizeof r) != (ssize_t)sizeof r) _exit(9);
  if (g_nrec && write(g_fd, g_rec, sizeof(ms_rec) * g_nrec) < 0) _exit(9);
}
/* pick the thread that performs its pending operation next; the caller has set its own pending op (or is blocked/finished) */
static int pick(void) {
  uint8_t en[MS_MAXT * 2]; int n = 0; int running_en = enabled(cur);
  if (running_en) en[n++] = cur;
  for (int i = 0; i < nthr; i++) if (i != cur && enabled(i)) en[n++] = i;
  int nreal = n;
  /* a spurious wake-up of a thread blocked in cond_wait is one more thing that may happen next (listed last, never the default) */
  if (g_spurious_budget > 0 && nreal > 0) for (int i = 0; i < nthr; i++) if (T[i].status == ST_CONDBLOCKED) en[n++] = 0x80 | i;
  if (nreal == 0) {
    int unfinished = 0; for (int i = 0; i < nthr; i++) if (T[i].status != ST_FINISHED) unfinished = 1;
    if (unfinished) { finish(MS_DEADLOCK); _exit(0); }
    return -1;
  }
  if (++g_steps > g_limit) { finish(MS_LIVELOCK); _exit(0); }
  int idx = 0;
  if (n >= 2) {
    if (g_pos < g_nprefix) { idx = g_prefix[g_pos]; if (idx < 0 || idx >= n) { finish(MS_DIVERGED); _exit(3); } }
    g_pos++;
    if (g_nrec < MS_MAXREC) { ms_rec* r = &g_rec[g_nrec++]; r->state = sched_state(); r->nen = n > MS_MAXT ? MS_MAXT : n; memcpy(r->en, en, r->nen); r->chosen = idx; r->running_enabled = running_en; for (int k = 0; k < r->nen; k++) r->ops[k] = (en[k] & 0x80) ? OP_SPURIOUS : T[en[k]].op; }
  }
  if (en[idx] & 0x80) {   /* inject the spurious return, then decide again who runs */
    int k = en[idx] & 0x7f; g_spurious_budget--;
    T[k].status = ST_RUNNABLE; for (int c = 0; c < nC; c++) C[c].waiters &= ~(1u << k);
    return pick();
  }
  return en[idx];
}
/* announce `op` and wait until this thread is chosen to perform it */
static void point(int op, const void* obj, const void* site) {
  int me = cur;
  T[me].op = op; T[me].obj = obj; T[me].site = site;
  int next = pick();
  if (next != me) { cur = next; sem_post(&T[next].sem); sem_wait(&T[me].sem); }
}
/* this thread cannot continue (blocked in cond_wait): hand the CPU to someone else and sleep */
static void yield_blocked(void) {
  int me = cur; int next = pick();
  if (next < 0) { finish(MS_DEADLOCK); _exit(0); }
  if (next == me) return;   /* woken spuriously and chosen to continue right away */
  cur = next; sem_post(&T[next].sem); sem_wait(&T[me].sem);
}

void ms_begin(const int* prefix, int nprefix, int out_fd, uint64_t (*state_cb)(void), int step_limit) {
  memset(T, 0, sizeof T); nthr = 1; cur = 0; nM = nC = 0; g_prefix = prefix; g_nprefix = nprefix; g_pos = 0; g_fd = out_fd; g_steps = 0; g_limit = step_limit; g_state_cb = state_cb; g_nrec = 0; g_choice_kind = 0; { const char* e = getenv("MS_SPURIOUS"); g_spurious_budget = e ? atoi(e) : 0; }
  memset(VC, 0, sizeof VC); memset(MVC, 0, sizeof MVC); VC[0][0] = 1; memset(&g_race, 0, sizeof g_race); g_nacc = 0; if (g_mem_on) { if (!SH) SH = (shadow_t*)calloc(SH_N, sizeof(shadow_t)); else memset(SH, 0, SH_N * sizeof(shadow_t)); } g_active = 1;
  T[0].status = ST_RUNNABLE; sem_init(&T[0].sem, 0, 0);
}
void ms_end(uint64_t final_hash) { (void)final_hash; g_state_cb = NULL; g_active = 0; T[0].status = ST_FINISHED; finish(MS_COMPLETE); }
int ms_nthreads_created(void) { return nthr - 1; }
void* ms_thread_arg(int id) { return (id > 0 && id < nthr) ? T[id].arg : NULL; }

static void* trampoline(void* p) {
  thr_t* t = (thr_t*)p;
  sem_wait(&t->sem);           /* first scheduled: perform OP_START (nothing to do) */
  t->fn(t->arg);
  /* returned without pthread_exit */
  extern void ms_exit(void*);
  ms_exit(NULL);
  return NULL;
}

int ms_create(pthread_t* out, const pthread_attr_t* attr, void* (*fn)(void*), void* arg) {
  (void)attr;
  point(OP_CREATE, NULL, __builtin_return_address(0));
  if (nthr >= MS_MAXT) { fprintf(stderr, "ms_sched: too many threads\n"); _exit(4); }
  int k = nthr++;
  T[k].status = ST_RUNNABLE; T[k].op = OP_START; T[k].site = (const void*)fn; T[k].fn = fn; T[k].arg = arg; T[k].joined = 0;
  memcpy(VC[k], VC[cur], sizeof VC[k]); VC[k][k] = 1; VC[cur][cur]++;   /* create happens-before everything the child does */
  sem_init(&T[k].sem, 0, 0);
  if (pthread_create(&T[k].real, NULL, trampoline, &T[k]) != 0) { fprintf(stderr, "ms_sched: pthread_create failed\n"); _exit(4); }
  *out = (pthread_t)(uintptr_t)(k + 1000);
  return 0;
}
int ms_join(pthread_t th, void** ret) {
  int k = (int)((uintptr_t)th - 1000);
  if (k <= 0 || k >= nthr) { fprintf(stderr, "ms_sched: join of unknown thread\n"); _exit(4); }
  T[cur].target = k;
  point(OP_JOIN, NULL, __builtin_return_address(0));
  if (T[k].joined) { fprintf(stderr, "ms_sched: thread joined twice\n"); _exit(5); }
  T[k].joined = 1; vc_join(VC[cur], VC[k]);   /* everything the joined thread did happens-before the return of join */
  pthread_join(T[k].real, NULL);
  if (ret) *ret = NULL;
  return 0;
}
void ms_exit(void* ret) {
  (void)ret;
  point(OP_EXIT, NULL, __builtin_return_address(0));
  int me = cur; T[me].status = ST_FINISHED; T[me].op = OP_NONE; T[me].site = NULL;
  int next = pick();
  if (next < 0) { finish(MS_DEADLOCK); _exit(0); }   /* cannot happen: thread 0 is never finished here */
  cur = next; sem_post(&T[next].sem);
  pthread_exit(NULL);
}
int ms_mutex_init(pthread_mutex_t* m, const pthread_mutexattr_t* a) { (void)a; M[mtx(m)].owner = -1; return 0; }
int ms_mutex_destroy(pthread_mutex_t* m) { int i = mtx(m); if (M[i].owner != -1) { fprintf(stderr, "ms_sched: destroying a locked mutex\n"); _exit(5); } return 0; }
int ms_mutex_lock(pthread_mutex_t* m) {
  if (M[mtx(m)].owner == cur) { fprintf(stderr, "ms_sched: relock of an owned mutex\n"); _exit(5); }
  point(OP_LOCK, m, __builtin_return_address(0));
  M[mtx(m)].owner = cur; vc_join(VC[cur], MVC[mtx(m)]); return 0;
}
int ms_mutex_unlock(pthread_mutex_t* m) {
  if (M[mtx(m)].owner != cur) { fprintf(stderr, "ms_sched: unlock of a mutex not owned\n"); _exit(5); }
  point(OP_UNLOCK, m, __builtin_return_address(0));
  memcpy(MVC[mtx(m)], VC[cur], sizeof VC[cur]); VC[cur][cur]++;
  M[mtx(m)].owner = -1; return 0;
}
int ms_cond_init(pthread_cond_t* c, const pthread_condattr_t* a) { (void)a; C[cnd(c)].waiters = 0; return 0; }
int ms_cond_destroy(pthread_cond_t* c) { if (C[cnd(c)].waiters) { fprintf(stderr, "ms_sched: destroying a condition variable with waiters\n"); _exit(5); } return 0; }
int ms_cond_wait(pthread_cond_t* c, pthread_mutex_t* m) {
  if (M[mtx(m)].owner != cur) { fprintf(stderr, "ms_sched: cond_wait without the mutex\n"); _exit(5); }
  point(OP_WAIT, c, __builtin_return_address(0));
  /* atomically release the mutex and block */
  int me = cur;
  memcpy(MVC[mtx(m)], VC[me], sizeof VC[me]); VC[me][me]++;
  M[mtx(m)].owner = -1; C[cnd(c)].waiters |= 1u << me;
  T[me].status = ST_CONDBLOCKED; T[me].op = OP_REACQ; T[me].obj = m;
  yield_blocked();
  /* woken by a broadcast and chosen while the mutex is free */
  M[mtx(m)].owner = me; vc_join(VC[me], MVC[mtx(m)]); return 0;
}
int ms_cond_broadcast(pthread_cond_t* c) {
  point(OP_BCAST, c, __builtin_return_address(0));
  int i = cnd(c);
  for (int k = 0; k < nthr; k++) if (C[i].waiters & (1u << k)) T[k].status = ST_RUNNABLE;
  C[i].waiters = 0; return 0;
}
/* pthread_cond_signal wakes ONE waiter, and POSIX does not say which: with several waiters this is a choice point of its own */
int ms_cond_signal(pthread_cond_t* c) {
  point(OP_SIGNAL, c, __builtin_return_address(0));
  int i = cnd(c); uint8_t w[MS_MAXT]; int n = 0;
  for (int k = 0; k < nthr; k++) if (C[i].waiters & (1u << k)) w[n++] = k;
  if (n == 0) return 0;
  int idx = 0;
  if (n >= 2) {
    if (g_pos < g_nprefix) { idx = g_prefix[g_pos]; if (idx < 0 || idx >= n) { finish(MS_DIVERGED); _exit(3); } }
    g_pos++;
    g_choice_kind = 1;
    if (g_nrec < MS_MAXREC) { ms_rec* r = &g_rec[g_nrec++]; r->state = sched_state(); r->nen = n; memcpy(r->en, w, n); r->chosen = idx; r->running_enabled = 0; for (int k = 0; k < n; k++) r->ops[k] = OP_WOKEN; }
    g_choice_kind = 0;
  }
  T[w[idx]].status = ST_RUNNABLE; C[i].waiters &= ~(1u << w[idx]);
  return 0;
}
int ms_setaffinity(int pid, size_t sz, const void* set) { (void)pid; (void)sz; (void)set; return 0; }

/* ---------------------------------------------------------------- memory-access layer */
void ms_mem_enable(int (*watch_cb)(const void*), const char* (*describe_cb)(const void*)) { g_mem_on = 1; g_watch_cb = watch_cb; g_describe_cb = describe_cb; }
void ms_mem_fresh(const void* addr, size_t size) {
  if (!g_mem_on || !g_active || !SH) return;
  /* forget the history of every remembered access inside the block (tombstone: keep the slot, reset its epochs) */
  for (uint32_t i = 0; i < SH_N; i++) if (SH[i].addr && (const char*)SH[i].addr >= (const char*)addr && (const char*)SH[i].addr < (const char*)addr + size) { SH[i].wt = -1; SH[i].wc = 0; memset(SH[i].rc, 0, sizeof SH[i].rc); }
}
static void race(int kind, int t1, int t2, const void* addr, const void* pc1, const void* pc2) {
  if (g_race.nraces++ == 0) { g_race.race_kind = kind; g_race.race_t1 = t1; g_race.race_t2 = t2; g_race.race_addr = (uintptr_t)addr; g_race.race_pc1 = (uintptr_t)pc1; g_race.race_pc2 = (uintptr_t)pc2; const char* w = g_describe_cb ? g_describe_cb(addr) : NULL; snprintf(g_race.race_what, sizeof g_race.race_what, "%s", w ? w : "?"); }
}
void ms_mem_access(const void* addr, int size, int is_write, const void* pc) {
  (void)size;
  if (!g_mem_on || !g_active) return;
  if (g_watch_cb && g_watch_cb(addr)) point(is_write ? OP_STORE : OP_LOAD, addr, pc);   /* a protocol variable: others may run first */
  int me = cur; g_nacc++;
  shadow_t* s = sh_find(addr, 1);
  if (s->wt >= 0 && s->wt != me && s->wc > VC[me][s->wt]) race(is_write ? 1 : 2, s->wt, me, addr, s->wpc, pc);
  if (is_write) {
    for (int r = 0; r < nthr; r++) if (r != me && s->rc[r] > VC[me][r]) race(3, r, me, addr, s->rpc[r], pc);
    s->wt = me; s->wc = VC[me][me]; s->wpc = pc; memset(s->rc, 0, sizeof s->rc);
  } else { s->rc[me] = VC[me][me]; s->rpc[me] = pc; }
}
