/* shim.h — force-included (-include) when compiling /repo/src/fitter/cholesky_solve.c for the C12 scheduler build.
 * Object-like macros rename the pthread entry points (declarations in <pthread.h> get renamed consistently),
 * so the unmodified walk_descents / evaluate_descent call into engine/sched/ms_sched.c. */
#ifndef MS_SHIM_H
#define MS_SHIM_H
#define pthread_create ms_create
#define pthread_join ms_join
#define pthread_exit ms_exit
#define pthread_mutex_init ms_mutex_init
#define pthread_mutex_destroy ms_mutex_destroy
#define pthread_mutex_lock ms_mutex_lock
#define pthread_mutex_unlock ms_mutex_unlock
#define pthread_cond_init ms_cond_init
#define pthread_cond_destroy ms_cond_destroy
#define pthread_cond_wait ms_cond_wait
#define pthread_cond_broadcast ms_cond_broadcast
#define pthread_cond_signal ms_cond_signal
#define sched_setaffinity ms_setaffinity
#ifdef MS_MEM   /* memory-access variant: allocators renamed so that recycled blocks start with an empty access history */
#define malloc ms_malloc
#define realloc ms_realloc
#define free ms_free
#define cholmod_l_allocate_dense ms_cholmod_allocate_dense
#endif
#endif
