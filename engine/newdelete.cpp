// newdelete.cpp — standard-conforming operator new for sanitizer builds.
// libasan's throwing operator new aborts the process ("out-of-memory") when a request cannot be
// satisfied; the C++ contract is to throw std::bad_alloc, and photospline's error paths for absurd sizes
// taken from corrupt headers rely on that.  These replacements keep ASan's malloc/free redzones and
// quarantine, and check sized deallocations themselves.
#include <new>
#include <cstdlib>
#include <cstdio>
#include <sanitizer/asan_interface.h>
extern "C" std::size_t __sanitizer_get_allocated_size(const volatile void* p);
// A single request above 2 GiB is answered like a machine that does not have the memory: bad_alloc.
// (Corrupt headers ask for tens of gigabytes; with overcommit the request would succeed and the shards would
// then really touch that memory.)
static const std::size_t kMaxRequest = (std::size_t)2 << 30;
static void* vf_alloc(std::size_t n) { if (n > kMaxRequest) throw std::bad_alloc(); void* p = std::malloc(n ? n : 1); if (!p) throw std::bad_alloc(); return p; }
void* operator new(std::size_t n) { return vf_alloc(n); }
void* operator new[](std::size_t n) { return vf_alloc(n); }
void* operator new(std::size_t n, const std::nothrow_t&) noexcept { return std::malloc(n ? n : 1); }
void* operator new[](std::size_t n, const std::nothrow_t&) noexcept { return std::malloc(n ? n : 1); }
void operator delete(void* p) noexcept { std::free(p); }
void operator delete[](void* p) noexcept { std::free(p); }
static void sized(void* p, std::size_t n) {
  if (p && __sanitizer_get_allocated_size(p) != (n ? n : 1)) { fprintf(stderr, "SUMMARY: AddressSanitizer: new-delete-size-mismatch allocated %zu freed-as %zu in operator-delete\n", __sanitizer_get_allocated_size(p), n); abort(); }
  std::free(p);
}
void operator delete(void* p, std::size_t n) noexcept { sized(p, n); }
void operator delete[](void* p, std::size_t n) noexcept { sized(p, n); }
