// alloc.hpp — tracking / fault-injecting allocator for splinetable<Alloc> with a global ledger.
#pragma once
#include <cstdlib>
#include <cstdint>
#include <map>
#include <string>
#include <vector>
#include <new>
#include <typeinfo>

namespace ta {
struct Block { size_t bytes; const std::type_info* type; int arena; };
struct Ledger {
  std::map<void*, Block> live;
  size_t live_bytes = 0, high_water = 0, total_allocs = 0, total_frees = 0, null_frees = 0;
  long fail_at = -1;          // fail the allocation with this ordinal (0-based, counted from arm()), -1 = never
  long alloc_ordinal = 0;
  bool fired = false;
  std::vector<std::string> errors;
  void reset() { for (auto& kv : live) ::free(kv.first); live.clear(); live_bytes = high_water = total_allocs = total_frees = null_frees = 0; fail_at = -1; alloc_ordinal = 0; fired = false; errors.clear(); }
  void arm(long k) { fail_at = k; alloc_ordinal = 0; fired = false; }
  void disarm() { fail_at = -1; }
  void mark() { high_water = live_bytes; }
  void* alloc(size_t bytes, const std::type_info& ty, int arena = 0) {
    if (fail_at >= 0 && alloc_ordinal++ == fail_at) { fired = true; throw std::bad_alloc(); }
    void* p = ::malloc(bytes ? bytes : 1); if (!p) throw std::bad_alloc();
    live[p] = Block{bytes, &ty, arena}; live_bytes += bytes; if (live_bytes > high_water) high_water = live_bytes; total_allocs++;
    return p;
  }
  void dealloc(void* p, size_t bytes, const std::type_info& ty, int arena = 0) {
    if (!p) { null_frees++; return; }
    auto it = live.find(p);
    if (it == live.end()) { errors.push_back("deallocate of a pointer that is not live (double free or foreign pointer), " + std::to_string(bytes) + " bytes of " + ty.name()); return; }
    if (it->second.bytes != bytes) errors.push_back("deallocate size mismatch: allocated " + std::to_string(it->second.bytes) + " bytes, returned as " + std::to_string(bytes) + " (" + ty.name() + ")");
    if (it->second.arena != arena) errors.push_back("deallocate through a different allocator instance: obtained from arena " + std::to_string(it->second.arena) + ", returned to arena " + std::to_string(arena) + " (" + ty.name() + ")");
    if (*it->second.type != ty) errors.push_back(std::string("deallocate type mismatch: allocated as ") + it->second.type->name() + " returned as " + ty.name());
    live_bytes -= it->second.bytes; live.erase(it); total_frees++; ::free(p);
  }
};
inline Ledger& ledger() { static Ledger L; return L; }

// Stateful: every instance belongs to an arena (0 = default-constructed); a block must go back through an instance of the
// arena it came from. The type does not declare propagate_on_container_* (they default to false), like most user allocators.
template <class T> struct TrackAlloc {
  typedef T value_type;
  template <class U> struct rebind { typedef TrackAlloc<U> other; };
  int arena;
  TrackAlloc() : arena(0) {}
  explicit TrackAlloc(int a) : arena(a) {}
  template <class U> TrackAlloc(const TrackAlloc<U>& o) : arena(o.arena) {}
  T* allocate(size_t n) { return static_cast<T*>(ledger().alloc(n * sizeof(T), typeid(T), arena)); }
  void deallocate(T* p, size_t n) { ledger().dealloc(p, n * sizeof(T), typeid(T), arena); }
  template <class U> bool operator==(const TrackAlloc<U>& o) const { return arena == o.arena; }
  template <class U> bool operator!=(const TrackAlloc<U>& o) const { return arena != o.arena; }
};
template <> struct TrackAlloc<void> {
  typedef void value_type;
  template <class U> struct rebind { typedef TrackAlloc<U> other; };
  int arena;
  TrackAlloc() : arena(0) {}
  explicit TrackAlloc(int a) : arena(a) {}
  template <class U> TrackAlloc(const TrackAlloc<U>& o) : arena(o.arena) {}
  template <class U> bool operator==(const TrackAlloc<U>& o) const { return arena == o.arena; }
  template <class U> bool operator!=(const TrackAlloc<U>& o) const { return arena != o.arena; }
};
}  // namespace ta
