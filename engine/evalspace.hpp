// evalspace.hpp — the shared table/point alphabets of the evaluation properties (C01, C02, C03, C17).
#pragma once
#include "vf.hpp"
#include "tablegen.hpp"
#include <memory>
#include <map>
#include <set>

namespace es {
typedef photospline::splinetable<> Table;

struct Built {
  tg::TableSpec spec;
  std::unique_ptr<Table> nanpad, hugepad;
  uint32_t maxorder = 0;
};
inline std::unique_ptr<Built> make(const tg::TableSpec& s) {
  std::unique_ptr<Built> b(new Built);
  b->spec = s;
  b->nanpad.reset(new Table); tg::build(*b->nanpad, s);
  b->hugepad.reset(new Table); tg::build(*b->hugepad, s, 1e300);
  for (auto& d : s.dims) b->maxorder = std::max(b->maxorder, d.order);
  return b;
}

inline const char* count_name(int c) { static const char* n[] = {"min", "min+1", "min+3"}; return n[c]; }
inline uint64_t count_for(uint32_t order, int c) { return 2 * order + 2 + (c == 0 ? 0 : (c == 1 ? 1 : 3)); }

// coarse failure class: knot-count class + the set of point classes present on the axes
inline std::string coarse(const std::string& tabkey, const std::string& ptcls) {
  bool anymin = false;
  for (size_t p = tabkey.find("min"); p != std::string::npos; p = tabkey.find("min", p + 3))
    if (p + 3 >= tabkey.size() || tabkey[p + 3] != '+') anymin = true;
  std::string cnt = anymin ? "some-minimal" : "none-minimal";
  std::set<std::string> parts; std::string cur;
  for (char c : ptcls + ",") { if (c == ',') { if (!cur.empty()) parts.insert(cur); cur.clear(); } else cur += c; }
  std::string o = "count=" + cnt + ":pt=";
  bool first = true; for (auto& p : parts) { if (!first) o += "+"; o += p; first = false; }
  return o;
}

// five structural points per axis: margins, interior, and the two special exact knots
inline std::vector<tg::Pt> five_points(const tg::DimSpec& D) {
  const auto& k = D.knots; uint64_t n = k.size(), na = D.naxes(); uint32_t o = D.order;
  std::vector<tg::Pt> p;
  auto mid = [&](uint64_t i) { return k[i] + 0.5 * (k[i + 1] - k[i]); };
  p.push_back({mid(0), o ? "left-margin" : "interior"});
  p.push_back({mid(o), "interior"});
  p.push_back({mid(n - 2), o ? "right-margin" : "interior"});
  p.push_back({k[o > 0 ? o : 1], "knot:k[order]"});
  p.push_back({k[na], "knot:k[naxes]"});
  return p;
}

struct HiPattern { const char* name; std::vector<uint32_t> orders; };
inline std::vector<HiPattern> hi_patterns(int d, bool thorough) {
  std::vector<HiPattern> ps;
  int maxconst = thorough ? (d <= 6 ? 5 : (d <= 7 ? 4 : 3)) : (d <= 5 ? 4 : (d <= 7 ? 3 : 2));
  for (int k = 0; k <= maxconst; k++) ps.push_back({nullptr, std::vector<uint32_t>(d, k)});
  { std::vector<uint32_t> o(d, 2); o[d / 2] = 3; ps.push_back({"all2-one3", o}); }
  { std::vector<uint32_t> o(d, 1); o[d - 1] = 5; ps.push_back({"all1-last5", o}); }
  if (thorough || d <= 6) { std::vector<uint32_t> o(d); for (int i = 0; i < d; i++) o[i] = (d >= 8 ? i % 3 : (d >= 7 ? i % 4 : i % 6)); ps.push_back({"alternating", o}); }
  if (d == 6) { ps.push_back({"known-222322", {2, 2, 2, 3, 2, 2}}); ps.push_back({"known-222522", {2, 2, 2, 5, 2, 2}}); }
  return ps;
}
static std::map<std::string, std::unique_ptr<Built>> g_cache;
inline Built& hi_table(int d, const HiPattern& p, int cnt, long seed) {
  std::string key = vf::fmt("%d/%s/%d", d, vf::vecstr(p.orders).c_str(), cnt);
  auto it = g_cache.find(key);
  if (it != g_cache.end()) return *it->second;
  if (g_cache.size() > 3) g_cache.clear();
  tg::TableSpec s;
  for (int i = 0; i < d; i++) s.dims.push_back({p.orders[i], tg::make_knots(i % 2 ? tg::K_IRREGULAR : tg::K_UNIFORM, p.orders[i], count_for(p.orders[i], cnt), 0.25 * i)});
  s.coeffs = tg::make_coeffs(1, s.ncoeffs(), seed, d * 100 + cnt);
  auto b = make(s);
  Built& r = *b;
  g_cache[key] = std::move(b);
  return r;
}

}  // namespace es
