/* vfs_driver.c — an in-memory "disk" registered as a cfitsio I/O driver ("vfs://name").
 * It sits UNDER the real cfitsio buffer layer and the real write_fits, logs every driver operation,
 * and can make any single operation fail (immediately, deferred to the next flush/close as a stdio
 * buffer would, or as a short write).  Must be a C file: fitsio2.h has no extern "C" guards. */
#include <fitsio.h>
#include <fitsio2.h>
#include <stdlib.h>
#include <string.h>
#include "vfs_driver.h"

static unsigned char* g_img = NULL; static size_t g_size = 0, g_cap = 0;   /* the disk image */
static long long g_pos = 0; static int g_open = 0, g_exists = 0;
static vfs_op* g_log = NULL; static int g_nlog = 0, g_caplog = 0;
static unsigned char* g_data = NULL; static size_t g_ndata = 0, g_capdata = 0;  /* payload of logged writes */
static int g_fail_op = -1, g_fail_mode = VFS_NONE; static long g_short_len = 0;
static int g_deferred_pending = 0, g_dead = 0;   /* deferred failure armed: data no longer reaches the disk */
static int g_injected = 0;                       /* did the planned fault actually fire? */

static void ensure(size_t n) { if (n > g_cap) { size_t c = g_cap ? g_cap : 65536; while (c < n) c *= 2; g_img = (unsigned char*)realloc(g_img, c); memset(g_img + g_cap, 0, c - g_cap); g_cap = c; } }
static int logop(int kind, long long off, long len) {
  if (g_nlog == g_caplog) { g_caplog = g_caplog ? 2 * g_caplog : 256; g_log = (vfs_op*)realloc(g_log, g_caplog * sizeof(vfs_op)); }
  g_log[g_nlog].kind = kind; g_log[g_nlog].off = off; g_log[g_nlog].len = len; g_log[g_nlog].data_off = g_ndata; g_log[g_nlog].result = 0;
  return g_nlog++;
}
static int faulty(int idx) { return idx == g_fail_op && g_fail_mode != VFS_NONE; }

void vfs_reset(void) { g_size = 0; if (g_img) memset(g_img, 0, g_cap); g_pos = 0; g_open = 0; g_exists = 0; g_nlog = 0; g_ndata = 0; g_fail_op = -1; g_fail_mode = VFS_NONE; g_deferred_pending = 0; g_dead = 0; g_injected = 0; }
void vfs_plan(int op, int mode, long short_len) { g_fail_op = op; g_fail_mode = mode; g_short_len = short_len; }
int vfs_nops(void) { return g_nlog; }
const vfs_op* vfs_get_op(int i) { return &g_log[i]; }
const unsigned char* vfs_op_data(int i) { return g_data + g_log[i].data_off; }
size_t vfs_image(const unsigned char** p) { *p = g_img; return g_size; }
int vfs_fault_fired(void) { return g_injected; }
int vfs_is_open(void) { return g_open; }
void vfs_set_image(const unsigned char* p, size_t n) { ensure(n); memcpy(g_img, p, n); g_size = n; g_exists = 1; }

static int d_init(void) { return 0; }
static int d_shutdown(void) { return 0; }
static int d_setopt(int o) { (void)o; return 0; }
static int d_getopt(int* o) { *o = 0; return 0; }
static int d_getver(int* v) { *v = 10; return 0; }
static int d_checkfile(char* urltype, char* infile, char* outfile) { (void)urltype; (void)infile; (void)outfile; return 0; }
static int d_open(char* filename, int rwmode, int* handle) { (void)filename; (void)rwmode; int i = logop(VFS_OPEN, 0, 0); if (!g_exists) { g_log[i].result = FILE_NOT_OPENED; return FILE_NOT_OPENED; } *handle = 1; g_open = 1; g_pos = 0; return 0; }
static int d_create(char* filename, int* handle) {
  (void)filename; int i = logop(VFS_CREATE, 0, 0);
  if (faulty(i)) { g_injected = 1; g_log[i].result = FILE_NOT_CREATED; return FILE_NOT_CREATED; }
  g_size = 0; if (g_img) memset(g_img, 0, g_cap); g_exists = 1; g_open = 1; g_pos = 0; *handle = 1; return 0;
}
static int d_truncate(int h, LONGLONG sz) { (void)h; int i = logop(VFS_TRUNCATE, sz, 0); if (faulty(i)) { g_injected = 1; g_log[i].result = 1; return 1; } if (!g_dead) { ensure((size_t)sz); if ((size_t)sz < g_size) memset(g_img + sz, 0, g_size - sz); g_size = (size_t)sz; } return 0; }
static int d_close(int h) {
  (void)h; int i = logop(VFS_CLOSE, 0, 0); g_open = 0;
  if (faulty(i) || g_deferred_pending) { g_injected = 1; g_deferred_pending = 0; g_log[i].result = FILE_NOT_CLOSED; return FILE_NOT_CLOSED; }
  return 0;
}
static int d_remove(char* filename) { (void)filename; logop(VFS_REMOVE, 0, 0); g_exists = 0; g_size = 0; if (g_img) memset(g_img, 0, g_cap); return 0; }
static int d_size(int h, LONGLONG* sz) { (void)h; logop(VFS_SIZE, 0, 0); *sz = (LONGLONG)g_size; return 0; }
static int d_flush(int h) {
  (void)h; int i = logop(VFS_FLUSH, 0, 0);
  /* like fflush on a full disk: fails now, and the final flush inside fclose will fail again */
  if (faulty(i) || g_deferred_pending) { g_injected = 1; g_log[i].result = WRITE_ERROR; return WRITE_ERROR; }
  return 0;
}
static int d_seek(int h, LONGLONG off) { (void)h; int i = logop(VFS_SEEK, off, 0); if (faulty(i)) { g_injected = 1; g_log[i].result = SEEK_ERROR; return SEEK_ERROR; } g_pos = off; return 0; }
static int d_read(int h, void* buf, long n) {
  (void)h; int i = logop(VFS_READ, g_pos, n);
  if (faulty(i)) { g_injected = 1; g_log[i].result = READ_ERROR; return READ_ERROR; }
  if (g_pos + n > (long long)g_size) { g_log[i].result = END_OF_FILE; return END_OF_FILE; }
  memcpy(buf, g_img + g_pos, n); g_pos += n; return 0;
}
static int d_write(int h, void* buf, long n) {
  (void)h; int i = logop(VFS_WRITE, g_pos, n);
  if (g_ndata + n > g_capdata) { size_t c = g_capdata ? g_capdata : 1 << 20; while (c < g_ndata + n) c *= 2; g_data = (unsigned char*)realloc(g_data, c); g_capdata = c; }
  memcpy(g_data + g_ndata, buf, n); g_ndata += n;
  long apply = n; int rc = 0;
  if (faulty(i)) {
    g_injected = 1;
    if (g_fail_mode == VFS_IMMEDIATE) { apply = 0; rc = WRITE_ERROR; }
    else if (g_fail_mode == VFS_SHORT) { apply = g_short_len < n ? g_short_len : n - 1; if (apply < 0) apply = 0; rc = WRITE_ERROR; }
    else if (g_fail_mode == VFS_DEFERRED) { apply = 0; g_deferred_pending = 1; g_dead = 1; rc = 0; }
  } else if (g_dead) apply = 0;
  g_log[i].applied = apply; g_log[i].result = rc;
  if (apply > 0) { ensure((size_t)(g_pos + apply)); memcpy(g_img + g_pos, buf, apply); if ((size_t)(g_pos + apply) > g_size) g_size = (size_t)(g_pos + apply); }
  g_pos += n;   /* a stdio stream advances its position even when the data is lost later */
  return rc;
}

int vfs_register(void) {
  static int done = 0; if (done) return 0; done = 1;
  /* make sure cfitsio's own drivers are registered first */
  { int status = 0; fitsfile* f = NULL; void* b = malloc(2880); size_t sz = 2880; fits_create_memfile(&f, &b, &sz, 2880, realloc, &status); if (f) { status = 0; fits_close_file(f, &status); } free(b); }
  return fits_register_driver((char*)"vfs://", d_init, d_shutdown, d_setopt, d_getopt, d_getver, d_checkfile, d_open, d_create, d_truncate, d_close, d_remove, d_size, d_flush, d_seek, d_read, d_write);
}
