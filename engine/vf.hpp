// vf.hpp — shared plumbing of every check harness.
//
// A harness registers named *spaces* (finite index ranges, "simplest first") and a
// function that executes one case of a space against the real library.  The
// orchestrator (checks/run.py) starts one process per shard; a shard walks the indices
// ≡ r (mod N) of every space completely.  Results are a line protocol on the --out
// file; the index of the case in flight is kept in a tiny mmap'ed side file so that a
// crash / sanitizer abort / timeout is attributed to the exact case and the shard is
// resumed behind it.
#pragma once
#include <cstdint>
#include <cstdarg>
#include <cstdio>
#include <cstdlib>
#include <cstring>
#include <cmath>
#include <string>
#include <vector>
#include <set>
#include <map>
#include <functional>
#include <sstream>
#include <unistd.h>
#include <fcntl.h>
#include <signal.h>
#include <sys/mman.h>

namespace vf {

inline std::string jesc(const std::string& s) {
  std::string o;
  for (unsigned char ch : s) {
    switch (ch) {
      case '"': o += "\\\""; break;
      case '\\': o += "\\\\"; break;
      case '\n': o += "\\n"; break;
      case '\t': o += "\\t"; break;
      case '\r': o += "\\r"; break;
      default:
        if (ch < 0x20 || ch >= 0x7f) { char b[8]; snprintf(b, sizeof b, "\\u%04x", ch); o += b; }
        else o += (char)ch;
    }
  }
  return o;
}
inline std::string oneline(std::string s) {
  for (auto& c : s) if (c == '\n' || c == '\t' || c == '\r') c = ' ';
  return s;
}
inline std::string fmt(const char* f, ...) __attribute__((format(printf, 1, 2)));
inline std::string fmt(const char* f, ...) {
  char buf[4096];
  va_list ap; va_start(ap, f); vsnprintf(buf, sizeof buf, f, ap); va_end(ap);
  return buf;
}
template <class T> inline std::string vecstr(const std::vector<T>& v) {
  std::ostringstream ss; ss.precision(17); ss << "[";
  for (size_t i = 0; i < v.size(); i++) { if (i) ss << ","; ss << v[i]; }
  ss << "]"; return ss.str();
}
inline std::string dstr(double d) { char b[40]; snprintf(b, sizeof b, "%.17g", d); return b; }
inline std::string hexd(double d) { char b[40]; snprintf(b, sizeof b, "%a", d); return b; }

// Mixed-radix index space.
struct Radix {
  std::vector<uint64_t> dims;
  Radix() {}
  Radix(std::initializer_list<uint64_t> d) : dims(d) {}
  uint64_t size() const { uint64_t s = 1; for (auto d : dims) s *= d; return s; }
  // first dimension varies slowest ("simplest first" = put structural axes first)
  std::vector<uint64_t> decode(uint64_t idx) const {
    std::vector<uint64_t> out(dims.size());
    for (size_t i = dims.size(); i-- > 0;) { out[i] = idx % dims[i]; idx /= dims[i]; }
    return out;
  }
};

// counter-based generator for the "arbitrary float" slots (value tables); the structural
// space never depends on it.
inline uint64_t mix64(uint64_t x) {
  x += 0x9e3779b97f4a7c15ULL; x = (x ^ (x >> 30)) * 0xbf58476d1ce4e5b9ULL;
  x = (x ^ (x >> 27)) * 0x94d049bb133111ebULL; return x ^ (x >> 31);
}
inline double u01(uint64_t seed, uint64_t ctr) { return (mix64(seed * 0x100000001b3ULL + ctr) >> 11) * (1.0 / 9007199254740992.0); }

struct Space {
  std::string name;
  uint64_t size;
  std::function<void(uint64_t)> run;
};

class Harness {
 public:
  std::string prop;
  bool thorough = false;
  long seed = 0;
  int timeout_s = 20;
  std::vector<Space> spaces;

  Harness(const char* p, int argc, char** argv) : prop(p) {
    for (int i = 1; i < argc; i++) {
      std::string a = argv[i];
      auto next = [&]() -> std::string { if (i + 1 >= argc) { fprintf(stderr, "missing arg after %s\n", a.c_str()); exit(2); } return argv[++i]; };
      if (a == "--tier") thorough = (next() == "thorough");
      else if (a == "--seed") seed = atol(next().c_str());
      else if (a == "--list") mode_ = LIST;
      else if (a == "--shard") { std::string s = next(); sscanf(s.c_str(), "%u/%u", &shard_r_, &shard_n_); }
      else if (a == "--resume") { resume_ = next(); }
      else if (a == "--replay") { mode_ = REPLAY; replay_ = next(); }
      else if (a == "--out") outpath_ = next();
      else if (a == "--only") only_ = next();
      else { fprintf(stderr, "unknown arg %s\n", a.c_str()); exit(2); }
    }
  }
  void add_space(const std::string& name, uint64_t size, std::function<void(uint64_t)> fn) {
    spaces.push_back(Space{name, size, fn});
  }
  bool replaying() const { return mode_ == REPLAY; }
  // self-description printed by --list: level, rule, assumption (repeatable), deadline_quick,
  // deadline_thorough, max_shards, require_<counter> (anti-vacuity minimum)
  void meta(const std::string& k, const std::string& v) { metas_.push_back({k, oneline(v)}); }
  // class hint of the case in flight: becomes part of the key if the process dies in it
  void hint(const std::string& h) {
    if (curmap_) { std::string s = cur_ + "|" + oneline(h); strncpy(curmap_, s.c_str(), 255); curmap_[255] = 0; }
  }

  // ---- reporting (called from inside a case) ----
  void violation(const std::string& key, const std::string& detail) {
    nviol_++;
    if (viol_per_key_[key]++ >= 3) return;  // keep the stream small; first ones are the simplest
    emit("V\t" + oneline(key) + "\t" + cur_ + "\t" + oneline(detail));
    if (out_) fflush(out_);
  }
  void cls(const std::string& c) {
    if (classes_.insert(c).second) emit("K\t" + oneline(c));
  }
  void count(const char* name, uint64_t n = 1) { counters_[name] += n; }
  void sample(const std::string& json) {
    if (samples_in_space_ < 2) { emit("X\t" + oneline(json)); samples_in_space_++; }
  }
  void note(const std::string& s) { emit("I\t" + oneline(s)); }
  bool want_sample() const { return samples_in_space_ < 2; }

  int main() {
    if (mode_ == LIST) {
      for (auto& s : spaces) printf("S\t%s\t%llu\n", s.name.c_str(), (unsigned long long)s.size);
      for (auto& m : metas_) printf("M\t%s\t%s\n", m.first.c_str(), m.second.c_str());
      return 0;
    }
    if (!outpath_.empty()) {
      out_ = fopen(outpath_.c_str(), "a");
      if (!out_) { perror("open out"); return 2; }
      std::string cp = outpath_ + ".cur";
      int fd = open(cp.c_str(), O_RDWR | O_CREAT | O_TRUNC, 0644);
      if (fd >= 0 && ftruncate(fd, 512) == 0) {
        void* m = mmap(nullptr, 512, PROT_READ | PROT_WRITE, MAP_SHARED, fd, 0);
        if (m != MAP_FAILED) curmap_ = (char*)m;
      }
      if (fd >= 0) close(fd);
    } else out_ = stdout;

    if (mode_ == REPLAY) {
      auto pos = replay_.rfind(':');
      std::string sp = replay_.substr(0, pos);
      uint64_t idx = strtoull(replay_.c_str() + pos + 1, nullptr, 10);
      for (auto& s : spaces) if (s.name == sp) {
        if (idx >= s.size) { fprintf(stderr, "replay index out of range\n"); return 2; }
        begin(s.name, idx); s.run(idx); end_case();
        flush_counters(); emit("END"); fflush(out_);
        return nviol_ ? 1 : 0;
      }
      fprintf(stderr, "replay: unknown space %s\n", sp.c_str());
      return 2;
    }
    std::string rs; uint64_t ri = 0; bool skipping = !resume_.empty();
    if (skipping) { auto pos = resume_.rfind(':'); rs = resume_.substr(0, pos); ri = strtoull(resume_.c_str() + pos + 1, nullptr, 10); }
    for (auto& s : spaces) {
      if (!only_.empty() && s.name != only_) continue;
      uint64_t start = shard_r_;
      if (skipping) {
        if (s.name != rs) continue;
        skipping = false;
        if (ri > start) { uint64_t k = (ri - shard_r_ + shard_n_ - 1) / shard_n_; start = shard_r_ + k * shard_n_; }
      }
      samples_in_space_ = 0;
      uint64_t done = 0;
      for (uint64_t idx = start; idx < s.size; idx += shard_n_) {
        begin(s.name, idx);
        s.run(idx);
        end_case();
        done++;
        if ((done & 0x3ff) == 0) { emit(fmt("D\t%s\t%llu", s.name.c_str(), (unsigned long long)done)); done = 0; flush_counters(); }
      }
      emit(fmt("D\t%s\t%llu", s.name.c_str(), (unsigned long long)done));
      flush_counters();
      fflush(out_);
    }
    emit("END");
    fflush(out_);
    return 0;
  }

 private:
  enum Mode { RUN, LIST, REPLAY } mode_ = RUN;
  unsigned shard_r_ = 0, shard_n_ = 1;
  std::string resume_, replay_, outpath_, only_;
  FILE* out_ = nullptr;
  char* curmap_ = nullptr;
  std::string cur_;
  uint64_t nviol_ = 0;
  int samples_in_space_ = 0;
  std::set<std::string> classes_;
  std::map<std::string, uint64_t> counters_;
  std::map<std::string, int> viol_per_key_;
  std::vector<std::pair<std::string, std::string>> metas_;

  void emit(const std::string& l) { fputs(l.c_str(), out_); fputc('\n', out_); }
  void begin(const std::string& sp, uint64_t idx) {
    cur_ = sp + ":" + std::to_string(idx);
    if (curmap_) { strncpy(curmap_, cur_.c_str(), 255); }
    alarm(timeout_s);
  }
  void end_case() { alarm(0); }
  void flush_counters() {
    for (auto& kv : counters_) if (kv.second) { emit(fmt("N\t%s\t%llu", kv.first.c_str(), (unsigned long long)kv.second)); kv.second = 0; }
  }
};

}  // namespace vf
