// tablegen.hpp — build arbitrary well-formed splinetable<Alloc> objects through the private
// seam (harness TUs are compiled with -fno-access-control), exactly the way fit.h and
// fitsio.h populate one: every array from the table's own allocate<>(), knot arrays
// over-allocated by `order` on both sides.  The padding is poisoned on purpose.
#pragma once
#include <photospline/splinetable.h>
#include <vector>
#include <string>
#include <limits>
#include "vf.hpp"
#include "../ref/bspline_ref.hpp"

namespace tg {

struct DimSpec {
  uint32_t order;
  std::vector<double> knots;
  uint64_t naxes() const { return knots.size() - order - 1; }
};

struct TableSpec {
  std::vector<DimSpec> dims;
  std::vector<float> coeffs;  // row-major, last dimension fastest
  std::vector<double> extents;  // 2*ndim or empty => default
  std::vector<double> periods;  // ndim or empty => NULL
  uint64_t ncoeffs() const { uint64_t n = 1; for (auto& d : dims) n *= d.naxes(); return n; }
  std::vector<ref::DimView> views() const {
    std::vector<ref::DimView> v;
    for (auto& d : dims) v.push_back(ref::DimView{d.knots.data(), d.knots.size(), d.order});
    return v;
  }
  std::string describe() const {
    std::string s = "{\"dims\":[";
    for (size_t i = 0; i < dims.size(); i++) {
      if (i) s += ",";
      s += "{\"order\":" + std::to_string(dims[i].order) + ",\"knots\":" + vf::vecstr(dims[i].knots) + "}";
    }
    s += "],\"ncoeffs\":" + std::to_string(ncoeffs()) + "}";
    return s;
  }
};

template <class Alloc>
void build(photospline::splinetable<Alloc>& t, const TableSpec& s, double poison = std::numeric_limits<double>::quiet_NaN()) {
  typedef photospline::splinetable<Alloc> T;
  uint32_t nd = s.dims.size();
  t.ndim = nd;
  t.order = t.template allocate<uint32_t>(nd);
  t.nknots = t.template allocate<uint64_t>(nd);
  t.naxes = t.template allocate<uint64_t>(nd);
  t.strides = t.template allocate<uint64_t>(nd);
  t.knots = t.template allocate<typename T::double_ptr>(nd);
  for (uint32_t i = 0; i < nd; i++) {
    uint32_t o = s.dims[i].order;
    uint64_t nk = s.dims[i].knots.size();
    t.order[i] = o; t.nknots[i] = nk; t.naxes[i] = nk - o - 1;
    auto base = t.template allocate<double>(nk + 2 * o);
    for (uint64_t j = 0; j < nk + 2 * o; j++) base[j] = poison;
    t.knots[i] = base + o;
    for (uint64_t j = 0; j < nk; j++) t.knots[i][j] = s.dims[i].knots[j];
  }
  t.strides[nd - 1] = 1;
  for (uint32_t i = nd - 1; i > 0; i--) t.strides[i - 1] = t.strides[i] * t.naxes[i];
  uint64_t nc = t.strides[0] * t.naxes[0];
  t.coefficients = t.template allocate<float>(nc);
  for (uint64_t i = 0; i < nc; i++) t.coefficients[i] = i < s.coeffs.size() ? s.coeffs[i] : 0.f;
  t.extents = t.template allocate<typename T::double_ptr>(nd);
  t.extents[0] = t.template allocate<double>(2 * nd);
  for (uint32_t i = 0; i < nd; i++) {
    t.extents[i] = &t.extents[0][2 * i];
    if (s.extents.size() == 2 * nd) { t.extents[i][0] = s.extents[2 * i]; t.extents[i][1] = s.extents[2 * i + 1]; }
    else { t.extents[i][0] = t.knots[i][t.order[i]]; t.extents[i][1] = t.knots[i][t.nknots[i] - t.order[i] - 1]; }
  }
  if (s.periods.size() == nd) {
    t.periods = t.template allocate<double>(nd);
    for (uint32_t i = 0; i < nd; i++) t.periods[i] = s.periods[i];
  } else t.periods = nullptr;
  t.naux = 0; t.aux = nullptr;
}

// ---- knot-vector alphabet --------------------------------------------------------------
// pattern ids (simplest first)
enum KnotPattern { K_UNIFORM = 0, K_IRREGULAR, K_DOUBLE, K_TRIPLE, K_CLAMPED, K_TINYWIDE, K_NPATTERNS };
inline const char* pattern_name(int p) {
  static const char* n[] = {"uniform", "irregular", "double-knot", "triple-knot", "clamped", "tiny-next-to-wide"};
  return n[p];
}
// nknots must be >= 2*order+2
inline std::vector<double> make_knots(int pattern, uint32_t order, uint64_t nknots, double shift = 0.0) {
  std::vector<double> k(nknots);
  switch (pattern) {
    case K_UNIFORM:
      for (uint64_t i = 0; i < nknots; i++) k[i] = (double)i;
      break;
    case K_IRREGULAR: {
      static const double step[] = {1.0, 7.0, 0.3, 2.5, 0.11, 4.0, 1.7};
      double x = -3.25;
      for (uint64_t i = 0; i < nknots; i++) { k[i] = x; x += step[i % 7]; }
      break;
    }
    case K_DOUBLE: {  // one interior double knot (at the middle)
      double x = 0; uint64_t mid = nknots / 2;
      for (uint64_t i = 0; i < nknots; i++) { k[i] = x; if (i + 1 != mid) x += 1.0 + 0.25 * (i % 3); }
      break;
    }
    case K_TRIPLE: {
      double x = 0.5; uint64_t mid = nknots / 2;
      for (uint64_t i = 0; i < nknots; i++) { k[i] = x; if (!(i + 1 == mid || (i + 2 == mid && nknots > 4))) x += 0.75 + 0.5 * (i % 2); }
      break;
    }
    case K_CLAMPED: {  // order+1 equal knots at both ends
      for (uint64_t i = 0; i < nknots; i++) {
        if (i <= order) k[i] = 0.0;
        else if (i >= nknots - order - 1) k[i] = (double)(nknots - 2 * order - 1);
        else k[i] = (double)(i - order);
      }
      break;
    }
    case K_TINYWIDE: {
      double x = 1.0;
      for (uint64_t i = 0; i < nknots; i++) { k[i] = x; x += (i % 2 == 0) ? 1e-6 : 100.0; }
      break;
    }
  }
  if (shift != 0) for (auto& v : k) v += shift;
  return k;
}

// structural point classes of one knot vector; accept = inside (k0, klast]
struct Pt { double x; const char* cls; };
inline std::vector<Pt> point_classes(const std::vector<double>& k, uint32_t order, bool reduced = false) {
  std::vector<Pt> p;
  uint64_t n = k.size(), naxes = n - order - 1;
  auto region = [&](double x) -> const char* {
    if (x < k[order]) return "left-margin";
    if (x >= k[naxes]) return "right-margin";
    return "interior";
  };
  for (uint64_t j = 0; j < n; j++) {
    if (j >= 1) {
      const char* c = "knot";
      if (k[j] == k[naxes]) c = (naxes >= 1 && k[naxes - 1] == k[naxes]) ? "knot:k[naxes]=repeated" : "knot:k[naxes]";
      else if (k[j] == k[n - 1]) c = "knot:last";
      else if (k[j] == k[order]) c = "knot:k[order]";
      p.push_back({k[j], c});
    }
    if (reduced && !(j == order || j == naxes || j == n - 1 || j == 0)) { }
    else {
      double a = std::nextafter(k[j], -INFINITY), b = std::nextafter(k[j], INFINITY);
      if (a > k[0]) p.push_back({a, "knot-ulp"});
      if (b <= k[n - 1] && b > k[0]) p.push_back({b, "knot+ulp"});
    }
    if (j + 1 < n && k[j + 1] > k[j]) {
      double m = k[j] + 0.5 * (k[j + 1] - k[j]);
      if (m > k[j] && m < k[j + 1]) p.push_back({m, region(m)});
      if (!reduced) { double s = k[j] + (k[j + 1] - k[j]) / 7.0; if (s > k[j] && s < k[j + 1]) p.push_back({s, region(s)}); }
    }
  }
  return p;
}

// coefficient tables
inline std::vector<float> make_coeffs(int kind, uint64_t n, long seed, uint64_t salt = 0) {
  std::vector<float> c(n);
  static const float special[] = {0.f, -0.f, 1.f, -1.f, 1e-30f, -1e30f, 1e30f, 1.17549435e-38f, 1e-45f, 3.5f, -0.125f, 1024.f};
  for (uint64_t i = 0; i < n; i++) {
    switch (kind) {
      case 0: c[i] = 1.f; break;                                  // all ones
      case 1: c[i] = (float)(1.0 + 2.0 * vf::u01(seed, salt * 7919 + i) - 1.0 + (i % 3)); break;  // moderate seeded
      case 2: {                                                   // wide dynamic range seeded, incl. specials
        uint64_t h = vf::mix64(seed * 31 + salt * 1315423911ULL + i);
        if (h % 5 == 0) c[i] = special[(h >> 8) % 12];
        else { double m = vf::u01(seed, h) * 2 - 1; int e = (int)((h >> 20) % 41) - 20; c[i] = (float)std::ldexp(m, e); }
        break;
      }
      default: c[i] = 0.f;
    }
  }
  return c;
}

}  // namespace tg
