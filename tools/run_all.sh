#!/bin/bash
# usage: tools/run_all.sh [tier] [seed]   — runs every registered check and prints one summary line each
TIER=${1:-quick}; SEED=${2:-0}
cd /verif
for id in $(python3 -c "import json;print(' '.join(c['property_id'] for c in json.load(open('MANIFEST.json'))['checks']))"); do
  out=$(VERIF_SEED=$SEED python3 checks/run.py $id $TIER 2>&1); rc=$?
  echo "$out" | grep -E "^(VIOLATION|HARNESS-ERROR)" | head -3
  echo "$out" | tail -1 | cut -c1-200 | sed "s/^/[rc=$rc seed=$SEED] /"
done
