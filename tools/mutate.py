#!/usr/bin/env python3
"""Mutation campaign: how sharp are the checks?   (development tool; not part of any registered command)

usage: tools/mutate.py gen  <outdir>                    write one unified diff per mutant (single-token changes) + index.tsv
       tools/mutate.py run  <outdir> <worker> <nworkers> run the mapped quick checks against every k-th mutant in a private
                                                         scratch worktree under /var/tmp (removed at the end); results in
                                                         <outdir>/result.<worker>.tsv :  id  file:line  verdict  check  detail
Verdicts: caught (a mapped check exits 1), survived (all mapped checks exit 0), nobuild (harness build failed: discarded).
A survivor is reviewed by hand: equivalent mutant / outside every property / genuine gap in a check.
"""
import os, re, subprocess, sys, tempfile, shutil, time

REPO = "/repo"
# file -> (checks that anchor in it, cheapest first), optional line ranges
TARGETS = [
    ("include/photospline/bspline.h", ["C02", "C01"], None),
    ("include/photospline/detail/bspline_eval.h", ["C04", "C02", "C01", "C03"], None),
    ("include/photospline/detail/bspline_multi.h", ["C02", "C03"], None),
    ("src/core/bspline.cpp", ["C02", "C01", "C09"], None),
    ("include/photospline/detail/fitsio.h", ["C06", "C07", "C08", "C19"], None),
    ("include/photospline/detail/aux.h", ["C16", "C06", "C20"], None),
    ("include/photospline/detail/convolve.h", ["C14", "C20"], None),
    ("src/core/convolve.cpp", ["C14"], None),
    ("include/photospline/detail/permute.h", ["C15", "C20"], None),
    ("include/photospline/detail/grideval.h", ["C17", "C18"], None),
    ("include/photospline/detail/fit.h", ["C13", "C09", "C10"], None),
    ("src/fitter/glam.c", ["C09", "C10", "C13", "C18"], None),
    ("src/fitter/splineutil.c", ["C17", "C09", "C10", "C18"], None),
    ("src/fitter/nnls.c", ["C11", "C10", "C18"], None),
    ("src/fitter/cholesky_solve.c", ["C12", "C11"], (700, 1151)),
    ("src/cinter/splinetable.cpp", ["C18"], None),
    ("include/photospline/splinetable.h", ["C20", "C18", "C06"], (600, 884)),
]
SKIP_LINE = re.compile(r'^\s*(//|/\*|\*|#|template|typedef|using |namespace|friend|public:|private:|protected:)|printf|fprintf|runtime_error|std::cerr|assert\(')
TEMPLATEY = re.compile(r'(static_cast|reinterpret_cast|const_cast|allocate|deallocate|vector|unique_ptr|std::\w+|template|numeric_limits|typename|\w+_type|splinetable|ndsplineeval\w*|std::function|pair|detail::\w+|_impl|Helper)\s*<')

def mutants_of_line(line):
    """yield (description, new_line)"""
    if SKIP_LINE.search(line): return
    code = line.split("//")[0]
    if not code.strip() or code.strip() in ("{", "}", "};", "else", "else{", "}else{"): return
    out = []
    def sub_at(m, rep): return line[:m.start()] + rep + line[m.end():]
    ctl = re.search(r'\b(if|for|while|return)\b|\?', code) is not None
    if ctl and not TEMPLATEY.search(code):
        for m in re.finditer(r'(?<![<>=!\-+&|])(<=|>=|<|>)(?![<>=])', code):
            if code[max(0, m.start() - 1):m.start()] == '-' : continue
            op = m.group(1); rep = {"<=": "<", "<": "<=", ">=": ">", ">": ">="}[op]
            out.append(("%s -> %s" % (op, rep), sub_at(m, rep)))
    for m in re.finditer(r'(==|!=)', code):
        if ctl: out.append(("%s -> %s" % (m.group(1), "!=" if m.group(1) == "==" else "=="), sub_at(m, "!=" if m.group(1) == "==" else "==")))
    for m in re.finditer(r'(&&|\|\|)', code):
        out.append(("%s -> %s" % (m.group(1), "||" if m.group(1) == "&&" else "&&"), sub_at(m, "||" if m.group(1) == "&&" else "&&")))
    # small integer literals in arithmetic / index context
    for m in re.finditer(r'(?<=[\+\-\[\(,=<> ])([012])(?=[\]\);, ])', code):
        if re.search(r'[A-Za-z_\.]$', code[:m.start()]): continue
        n = int(m.group(1)); out.append(("%d -> %d" % (n, n + 1), sub_at(m, str(n + 1))))
    # + <-> - between operands
    for m in re.finditer(r'(?<=[\w\)\]])\s*([+\-])\s*(?=[\w\(])', code):
        if code[m.start(1) - 1:m.start(1) + 2] in ("e+", "e-") : continue
        if code[m.start(1):m.start(1) + 2] in ("++", "--", "->", "+=", "-=") or code[m.start(1) - 1:m.start(1) + 1] in ("++", "--"): continue
        op = m.group(1); out.append(("%s -> %s" % (op, "-" if op == "+" else "+"), line[:m.start(1)] + ("-" if op == "+" else "+") + line[m.end(1):]))
    # statement deletion (simple assignments and calls)
    st = code.strip()
    if st.endswith(";") and not re.match(r'^(return|break|continue|delete|throw|goto|case|default|else)\b', st) and not re.match(r'^[\w:<>\*&\s]+\s+\**\w+(\[.*\])?\s*(=.*)?;$', st) and "(" in st or re.match(r'^[\w\]\[\.\->\*\(\)]+\s*[\+\-\*]?=\s*[^=].*;$', st):
        if not re.match(r'^(const\s+)?(unsigned\s+)?(int|long|double|float|size_t|uint\d+_t|int\d+_t|char|bool|auto|std::|cholmod_|struct)\b', st):
            out.append(("delete statement", line[:len(line) - len(line.lstrip())] + ";" + ("\n" if line.endswith("\n") else "")))
    seen = set()
    for d, nl in out:
        if nl != line and nl not in seen: seen.add(nl); yield d, nl

def gen(outdir):
    os.makedirs(outdir, exist_ok=True)
    idx = open(os.path.join(outdir, "index.tsv"), "w"); n = 0
    for path, checks, rng in TARGETS:
        lines = open(os.path.join(REPO, path)).read().split("\n")
        for i, l in enumerate(lines):
            if rng and not (rng[0] <= i + 1 <= rng[1]): continue
            for d, nl in mutants_of_line(l):
                mid = "m%05d" % n; n += 1
                diff = "--- a/%s\n+++ b/%s\n@@ -%d,1 +%d,1 @@\n-%s\n+%s\n" % (path, path, i + 1, i + 1, l, nl)
                open(os.path.join(outdir, mid + ".diff"), "w").write(diff)
                idx.write("%s\t%s:%d\t%s\t%s\t%s\n" % (mid, path, i + 1, d, ",".join(checks), l.strip()[:120]))
    idx.close(); print("mutants:", n)

def run(outdir, worker, nworkers, stride):
    rows = [l.rstrip("\n").split("\t") for l in open(os.path.join(outdir, "index.tsv"))]
    rows = rows[int(os.environ.get("MUT_OFFSET", "0"))::stride]
    mine = [r for k, r in enumerate(rows) if k % nworkers == worker]
    W = tempfile.mkdtemp(prefix="ps-mutc-", dir="/var/tmp")
    subprocess.check_call(["git", "-C", REPO, "worktree", "add", "-q", "--detach", W, "HEAD"])
    bdir = "/verif/build/" + re.sub(r'[^A-Za-z0-9]', '_', W)
    res = open(os.path.join(outdir, "result.%d.tsv" % worker), "a")
    env = dict(os.environ, VERIF_REPO=W, VERIF_JOBS=os.environ.get("MUT_JOBS", "6"), VERIF_SEED="0")
    try:
        for mid, loc, d, checks, src in mine:
            subprocess.call(["git", "-C", W, "checkout", "-q", "--", "."])
            if subprocess.call(["git", "-C", W, "apply", "--unidiff-zero", "--whitespace=nowarn", os.path.join(outdir, mid + ".diff")]) != 0:
                res.write("%s\t%s\tnoapply\t-\t%s\n" % (mid, loc, d)); res.flush(); continue
            verdict, which, detail = "survived", "-", ""
            for c in checks.split(","):
                t0 = time.time()
                p = subprocess.run(["python3", "/verif/checks/run.py", c, "quick"], env=env, stdout=subprocess.PIPE, stderr=subprocess.STDOUT, universal_newlines=True)
                out = p.stdout
                if p.returncode == 1 and "VIOLATION" in out:
                    verdict, which = "caught", c
                    m = re.search(r'^detail: key=(\S+)', out, re.M); detail = m.group(1)[:100] if m else ""
                    break
                if p.returncode != 0:
                    if "HARNESS-ERROR" in out and ("build" in out or "error:" in out): verdict, which, detail = "nobuild", c, ""; break
                    verdict, which, detail = "error", c, out.strip().split("\n")[-1][:150]; break
            res.write("%s\t%s\t%s\t%s\t%s | %s | %s\n" % (mid, loc, verdict, which, d, src, detail)); res.flush()
    finally:
        subprocess.call(["git", "-C", REPO, "worktree", "remove", "--force", W]); shutil.rmtree(W, ignore_errors=True); shutil.rmtree(bdir, ignore_errors=True)

if __name__ == "__main__":
    if sys.argv[1] == "gen": gen(sys.argv[2])
    else: run(sys.argv[2], int(sys.argv[3]), int(sys.argv[4]), int(os.environ.get("MUT_STRIDE", "1")))
