#!/usr/bin/env python3
"""Regenerates /verif/MANIFEST.json from the table below (single source of truth for what is claimed)."""
import json, os
V = os.path.dirname(os.path.dirname(os.path.abspath(__file__)))
props = [json.loads(l) for l in open(os.path.join(V, "properties.jsonl"))]

CHECKS = {
 "C01": dict(cat="exploration", tech="bounded-exhaustive enumeration of table x point-class spaces against a long-double Cox-de Boor reference",
   text="Every case of a stated finite space (orders 0..5, six knot patterns incl. repeated/clamped/tiny-next-to-wide, minimal and larger knot counts, unit-impulse / ones / seeded coefficient tables, 1..9 dimensions with all 3^d margin/interior combinations, every structural point class incl. exact knots and their float neighbours, both precisions, NaN- and huge-poisoned padding) is evaluated through member<float|double>, operator() and the C wrapper and compared with the full tensor-product sum computed independently. Exhaustive over the alphabet, silent about values outside it.",
   note="trusted: ref/bspline_ref.hpp, tolerance rule of DESIGN Appendix B, g++/ASan/UBSan", ref="4/C01"),
 "C02": dict(cat="exploration", tech="bounded-exhaustive enumeration of table x point x derivative-request spaces against the long-double derivative recursion",
   text="The C01 table and point-class spaces for 1..7 dimensions; at every point every derivative bitmask (all subsets up to 4 dimensions), every lane of value+gradient in both precisions, the C gradient wrapper and ndsplineeval_deriv with per-axis derivative orders 0..order+1 (full cross product up to 2 dimensions) are compared with the exact partial derivative of the reference spline; orders above the spline order must give exactly 0. Two defects found this way are listed as known findings (exactly-on-knot cases), one was repaired.",
   note="trusted: ref/bspline_ref.hpp derivative recursion and pre-cancellation magnitude for the tolerance", ref="4/C02"),
 "C03": dict(cat="exploration", tech="bounded-exhaustive enumeration of (dimension, order pattern, point) x entry points, memcmp across evaluation paths in four build variants",
   text="For every dimension count 1..9 and every order pattern of the alphabet (all k, the two known mixed patterns and near misses, patterns served by the per-dimension specialisation, seeded mixed ones) the generic members, the evaluator object (core identified by address), its call operator, the table call operator and the C wrappers are compared bit for bit on centres, values, derivatives, every gradient lane and arbitrary derivatives, at structural and seeded points, in both precisions, in builds with and without PHOTOSPLINE_NO_EVAL_TEMPLATES at the library's PUBLIC flags and under ASan; every dispatch family must have been exercised.",
   note="trusted: g++ 12 code generation at the stated flags; memcmp oracle needs no reference", ref="4/C03"),
 "C04": dict(cat="exploration", tech="bounded-exhaustive enumeration of knot vectors x coordinate classes against an independent acceptance/bracketing specification",
   text="Complete walk of orders x knot patterns x knot counts x magnitude transforms (1e300, 1e-300, negated, consecutive denormals, +1e15) x every structural coordinate class (each knot, both float neighbours, interval points, the first knot, outside neighbours, +-inf, +-DBL_MAX, +-denormal, +-0) in 1 dimension and the full tensor of six classes per axis in 2..4 dimensions; acceptance, index range, bracketing, margin clamping, the C wrapper and operator() are checked on every case, termination by a per-case timer.",
   note="trusted: the specification predicate written in the harness; NaN excluded by the property itself", ref="4/C04"),
 "C05": dict(cat="exploration", tech="bounded-exhaustive enumeration of tables x special coordinate vectors x entry points with ASan/UBSan/assertions as oracle",
   text="Every combination of a table alphabet (orders 0..5, minimal knot counts, knot padding produced by direct construction, read_fits_mem, convolve and fit; 1..9 dimensions) with special coordinate classes per axis (NaN, infinities, DBL_MAX, denormal, every knot, +-1ulp around the range ends, far outside) is pushed through lookup, operator(), all derivative masks, both gradient entry points (guard words; must refuse d>=8), arbitrary-order derivatives up to order+1, evaluator objects and the C wrappers in an instrumented build with assertions on; a crash is attributed to the exact case.",
   note="trusted: ASan/UBSan of g++ 12; only photospline's own code is instrumented", ref="4/C05"),
 "C06": dict(cat="exploration", tech="bounded-exhaustive enumeration of tables x serialisation options, checked by library round trip and by an independent FITS reader and writer",
   text="Every combination of dimension count 1..9 with pairwise different axis lengths, order pattern, seeded or extreme coefficient values (+-0, denormal, FLT_MAX, inf, NaN payload), default or custom extents, periods or none, 0/1/5/40 auxiliary keys and disk or memory back end is written and read back by the library (C++ and C), compared field by field, parsed by an independent reader that checks the documented layout byte for byte, and re-created by an independent writer that the library must read identically; legacy layouts (single ORDER key, no EXTENTS/PERIOD, integer and double coefficient images) and the ten shipped files (recorded digests) are included.",
   note="trusted: ref/fits_ref.hpp (independent of cfitsio); periods are compared to 1e-13 because cfitsio stores header doubles with 15 digits and the property does not list them as exact", ref="4/C06"),
 "C07": dict(cat="fault_enumeration", tech="exhaustive single-deviation enumeration over the bytes and structure of valid seed files, each read through every reader entry under ASan/UBSan",
   text="Three valid files with known HDU boundaries are mutated by every single deviation of a structural alphabet (each header card deleted / duplicated / blanked / renamed / given 12 replacement values, each extension dropped / duplicated / swapped / resized / retargeted, each knot vector made non-finite / descending / inverted / constant / huge, truncation at every block and card edge and +-1 byte around HDU boundaries, every bit-flip class of every header byte and boundary data blocks) plus foreign inputs; each file goes through read_fits_mem, read_fits, the path constructor and both C readers. A failing read must leave an empty object that then loads the valid seed and destructs; a successful read must satisfy the well-formedness predicate and survive a battery of lookups, evaluations at special points, comparison, re-serialisation and permutation in an instrumented build.",
   note="trusted: ref/fits_ref.hpp for seeds and boundaries; operator new replaced by a throwing one that refuses >2 GiB requests (libasan would abort instead of throwing); single deviations only", ref="4/C07", engine="fault"),
 "C08": dict(cat="fault_enumeration", tech="exhaustive single-fault and crash-prefix enumeration of the real writer's driver-operation history on an in-memory cfitsio I/O driver",
   text="The real write_fits and cfitsio buffer layer run on an in-memory disk registered as a cfitsio driver; the logged operation history (10..400 driver calls for six table shapes from 6 to 300 FITS blocks, incl. header overflow) is the object of enumeration: every operation index x {immediate error, deferred error at flush/close, four short-write lengths} must be reported by an exception (C: non-zero) unless the complete file is on disk, and every crash prefix at operation granularity plus torn final writes at byte granularity (every byte for small files, sector and card edges for large ones) must be rejected or load equal through both the memory and the disk reader. The virtual disk is bound to reality by byte-identity with a real file and by RLIMIT_FSIZE runs of the real disk driver in forked children.",
   note="trusted: the driver model (deferred errors modelled on stdio+ENOSPC), ref/fits_ref.hpp for file regions; single faults only; seek failures not injected", ref="4/C08", engine="fault"),
 "C12": dict(cat="model_checking", tech="explicit-state exploration of all interleavings of the real walk_descents/evaluate_descent under a controlled scheduler (state matching), plus a free-running ThreadSanitizer pass",
   text="The unmodified cholesky_solve.c is compiled with its pthread entry points renamed to a cooperative scheduler; for each configuration (1..3 workers, 2..7 trial steps = 1..3 blocks, workers fewer and more than trial steps, three data variants incl. the bind-and-retry branch) the complete reachable state graph at the granularity of lock / unlock / cond_wait / broadcast / create / join / exit is explored, one forked execution of the real code per transition, unbounded in preemptions. Every complete execution must terminate (a lost wake-up shows as 'no enabled thread'), join every worker once and return outputs bit-identical to the one-worker non-preemptive reference under ASan. Data-race freedom of photospline's own code, which the serialising scheduler cannot observe, is checked by running the same bodies and real monotonic fits free under ThreadSanitizer for 1..32 workers.",
   note="trusted: engine/sched/ms_sched.c (sequentially consistent interleavings at synchronisation operations), the canonical-state function, TSan for races; CHOLMOD internals are uninstrumented", ref="4/C12", engine="sched"),
}

def cmd(pid, tier):
    return "python3 checks/run.py %s %s" % (pid, tier)

checks, na = [], []
for p in props:
    pid = p["id"]
    if pid in CHECKS:
        c = CHECKS[pid]
        checks.append({
            "property_id": pid, "quick_cmd": cmd(pid, "quick"), "thorough_cmd": cmd(pid, "thorough"),
            "evidence_file": "/verif/evidence/%s.json" % pid,
            "replay_cmd_template": "python3 checks/run.py %s --replay {path}" % pid,
            "engine": c.get("engine", "enum"),
            "level_claimed": {"category": c["cat"], "text": c["text"], "design_ref": "DESIGN.md section " + c["ref"]},
            "level_note": c["note"], "technique": c["tech"]})
    else:
        na.append({"property_id": pid, "reason": "check not built yet (work in progress; plan in DESIGN.md section 4)"})

m = {"version": 1,
     "setup_cmd": "make -C /verif -j16 setup",
     "hooks": {"guard": "PHOTOSPLINE_VERIF",
               "enable": "harnesses compile /repo sources directly (make REPO=/repo) with -DPHOTOSPLINE_VERIF; no guarded code exists because no source hooks were needed (seams: -fno-access-control, allocator template parameter, cfitsio driver table, macro renaming of pthread entry points)",
               "baseline_off_cmd": "cmake -G Ninja -S /repo -B /repo/_build >/dev/null && cmake --build /repo/_build >/dev/null && ctest --test-dir /repo/_build -j8 --timeout 900",
               "source_commits": [], "add_only": True},
     "engines": [
         {"name": "enum", "path": "engine/vf.hpp + checks/run.py", "serves_properties": sorted(k for k, v in CHECKS.items() if v.get("engine", "enum") == "enum"),
          "kind_free_text": "mixed-radix bounded-exhaustive enumerator, sharded over cores, crash/timeout attribution per case, replay-before-report, known-findings filter"},
         {"name": "fault", "path": "engine/vfs_driver.c + engine/vf.hpp + checks/run.py", "serves_properties": sorted(k for k, v in CHECKS.items() if v.get("engine") == "fault"),
          "kind_free_text": "fault / crash-point enumerator over a recorded operation history (cfitsio custom I/O driver, mutation of FITS bytes, argument deviations)"},
         {"name": "sched", "path": "engine/sched/ms_sched.c + engine/sched/shim.h + checks/C12.cpp", "serves_properties": ["C12"],
          "kind_free_text": "stateless model checker with state matching over the implementation: cooperative scheduler owning all pthread operations, fork-per-execution replay of choice prefixes"},
     ],
     "checks": checks,
     "notes": "All checks rebuild their harness from /repo's working tree (make, mtime based). known_findings.txt lists open findings (KNOWN-FINDING lines) and fixed ones (fix: commits in /repo).",
     "not_applicable": na}
json.dump(m, open(os.path.join(V, "MANIFEST.json"), "w"), indent=1)
print("checks:", [c["property_id"] for c in checks], "not_applicable:", len(na))
