#!/bin/bash
# usage: tools/intake.sh <ID> <worktree> <mode> <check> [<check>...]
# Takes a sub-agent's deliverables (patch.diff, demo.cpp, optional build.sh / demo.args, NOTES.txt) out of its scratch
# worktree into seeded/<ID>/, confirms them (tools/confirm_seed.sh) and runs the named checks against the patch.
set -u
ID=$1; WT=$2; MODE=$3; shift 3
S=/verif/seeded/$ID; mkdir -p $S
cp $WT/patch.diff $WT/demo.cpp $S/ || exit 2
for f in build.sh demo.args demo.cinter; do [ -f $WT/$f ] && cp $WT/$f $S/; done
[ -f $WT/NOTES.txt ] && cp $WT/NOTES.txt $S/README.txt
/verif/tools/confirm_seed.sh $ID $MODE 2>&1 | tail -2
/verif/tools/mutant_run.sh $S/patch.diff "$@" 2>&1
