#!/bin/bash
# usage: tools/confirm_seed.sh <ID> [fitter]   — confirms a seeded change kept under /verif/seeded/<ID>/ in a fresh scratch worktree:
#   patch applies to /repo HEAD, library builds, the 21 baseline tests pass with it, the demonstration fails with it and passes without it.
# The demonstration is seeded/<ID>/demo.cpp (run from the worktree root; optional args in seeded/<ID>/demo.args); "fitter" links the fitter sources too.
set -u
ID=$1; MODE=${2:-core}; S=/verif/seeded/$ID
W=$(mktemp -d /var/tmp/ps-seed-XXXXXX); git -C /repo worktree add -q --detach "$W" HEAD || exit 2
trap 'git -C /repo worktree remove --force "$W" 2>/dev/null; rm -rf "$W"' EXIT
builddemo() {
  # a demonstration that needs its own build recipe ships seeded/<ID>/build.sh (run from the worktree root; must produce demo/demo)
  if [ -f $S/build.sh ]; then mkdir -p $W/demo && cp $S/demo.cpp $S/build.sh $W/demo/ && (cd $W && sh demo/build.sh >/dev/null 2>&1) && cp $W/demo/demo $W/demo_bin; return $?; fi
  local extra=""; [ -f $S/demo.cinter ] && extra="$W/src/cinter/splinetable.cpp"
  if [ "$MODE" = fitter ] || [ "$MODE" = tsan ]; then
    local san=""; [ "$MODE" = tsan ] && san="-fsanitize=thread -g"
    mkdir -p $W/obj; for f in $W/src/fitter/*.c; do gcc -std=gnu99 -O1 $san -w -I$W/include -I/usr/include/suitesparse -c $f -o $W/obj/$(basename $f .c).o || return 1; done
    g++ -std=c++11 -O1 $san -w -I$W/include -I$W/src/fitter -I/usr/include/suitesparse -DPHOTOSPLINE_INCLUDES_SPGLAM $S/demo.cpp $W/src/core/*.cpp $extra $W/obj/*.o -lcfitsio -lspqr -lcholmod -lm -lpthread -o $W/demo_bin
  else
    g++ -std=c++11 -w -I$W/include -I/usr/include/suitesparse $S/demo.cpp $W/src/core/*.cpp $extra -lcfitsio -lm -lpthread -o $W/demo_bin
  fi; }
rundemo() { (cd $W && mkdir -p demo && cp demo_bin demo/demo && timeout 600 ./demo/demo $(cat $S/demo.args 2>/dev/null) >/dev/null 2>&1); echo $?; }
builddemo || { echo "demo does not build on the unchanged tree"; exit 2; }
CLEAN=$(rundemo)
git -C "$W" apply "$S/patch.diff" || { echo "PATCH-DOES-NOT-APPLY"; exit 2; }
builddemo || { echo "demo does not build with the patch"; exit 2; }
PATCHED=$(rundemo)
(cd $W && cmake -G Ninja -S . -B _build >/dev/null 2>&1; cmake --build _build -- -k 0 >/dev/null 2>&1; true)
TESTS=$(cd $W && ctest --test-dir _build -j8 --timeout 900 2>&1 | grep -E "tests passed|tests failed" | head -1)
echo "$ID: demo unchanged exit=$CLEAN, demo with patch exit=$PATCHED, baseline tests with patch: $TESTS"
[ "$CLEAN" = 0 ] && [ "$PATCHED" != 0 ] && echo "$TESTS" | grep -q "100% tests passed" && echo "CONFIRMED $ID" || echo "NOT-CONFIRMED $ID"
