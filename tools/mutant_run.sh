#!/bin/bash
# usage: tools/mutant_run.sh <patch.diff> <ID> [<ID>...]   (env TIER=quick|thorough)
# Applies the patch to a scratch worktree of /repo (outside /repo and /verif), runs the named checks
# against it with VERIF_REPO, prints their verdict lines, then removes the worktree and its objects.
set -u
PATCH=$(realpath "$1"); shift
W=$(mktemp -d /var/tmp/ps-mut-XXXXXX)
git -C /repo worktree add -q --detach "$W" HEAD || exit 2
trap 'git -C /repo worktree remove --force "$W" 2>/dev/null; rm -rf "$W" /verif/build/$(echo "$W" | sed "s/[^A-Za-z0-9]/_/g")' EXIT
if ! git -C "$W" apply --unidiff-zero --whitespace=nowarn "$PATCH"; then echo "PATCH-DOES-NOT-APPLY"; exit 2; fi
for id in "$@"; do
  VERIF_REPO="$W" python3 /verif/checks/run.py "$id" "${TIER:-quick}" 2>&1 | grep -E "^(VIOLATION|KNOWN-FINDING|HARNESS-ERROR|C[0-9]+ (quick|thorough):)" | cut -c1-300 | head -8
  echo "== $id exit=${PIPESTATUS[0]}"
done
